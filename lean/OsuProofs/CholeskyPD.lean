import OsuProofs.Cholesky
import Mathlib.Tactic.Positivity
import Mathlib.Tactic.Linarith

/-! `solve_cholesky` succeeds on every symmetric positive definite 4×4 system (and then solves it). -/
namespace Osu.Est

open Osu

/-- the quadratic form of the symmetric matrix given by its lower triangle -/
def quad4 (a00 a10 a11 a20 a21 a22 a30 a31 a32 a33 v0 v1 v2 v3 : ℝ) : ℝ :=
  a00 * v0 * v0 + a11 * v1 * v1 + a22 * v2 * v2 + a33 * v3 * v3 +
    2 * (a10 * v1 * v0 + a20 * v2 * v0 + a21 * v2 * v1 + a30 * v3 * v0 + a31 * v3 * v1 + a32 * v3 * v2)

/-- positive definite: the form is positive on every non-zero vector -/
def PosDef4 (a00 a10 a11 a20 a21 a22 a30 a31 a32 a33 : ℝ) : Prop :=
  ∀ v0 v1 v2 v3 : ℝ, (v0 ≠ 0 ∨ v1 ≠ 0 ∨ v2 ≠ 0 ∨ v3 ≠ 0) → 0 < quad4 a00 a10 a11 a20 a21 a22 a30 a31 a32 a33 v0 v1 v2 v3

/-- completing the squares with the factor computed so far -/
theorem quad4_squares (d0 d1 d2 l10 l20 l21 l30 l31 l32 a33 v0 v1 v2 v3 : ℝ) :
    quad4 (d0 * d0) (l10 * d0) (d1 * d1 + l10 * l10) (l20 * d0) (l21 * d1 + l20 * l10) (d2 * d2 + (l20 * l20 + l21 * l21))
        (l30 * d0) (l31 * d1 + l30 * l10) (l32 * d2 + (l30 * l20 + l31 * l21)) a33 v0 v1 v2 v3
      = (d0 * v0 + l10 * v1 + l20 * v2 + l30 * v3) ^ 2 + (d1 * v1 + l21 * v2 + l31 * v3) ^ 2 + (d2 * v2 + l32 * v3) ^ 2
        + (a33 - (l30 * l30 + (l31 * l31 + l32 * l32))) * v3 ^ 2 := by
  simp only [quad4]; ring

theorem quad4_squares3 (d0 d1 l10 l20 l21 a22 a30 a31 a32 a33 v0 v1 v2 : ℝ) :
    quad4 (d0 * d0) (l10 * d0) (d1 * d1 + l10 * l10) (l20 * d0) (l21 * d1 + l20 * l10) a22 a30 a31 a32 a33 v0 v1 v2 0
      = (d0 * v0 + l10 * v1 + l20 * v2) ^ 2 + (d1 * v1 + l21 * v2) ^ 2 + (a22 - (l20 * l20 + l21 * l21)) * v2 ^ 2 := by
  simp only [quad4]; ring

theorem quad4_squares2 (d0 l10 a11 a20 a21 a22 a30 a31 a32 a33 v0 v1 : ℝ) :
    quad4 (d0 * d0) (l10 * d0) a11 a20 a21 a22 a30 a31 a32 a33 v0 v1 0 0
      = (d0 * v0 + l10 * v1) ^ 2 + (a11 - l10 * l10) * v1 ^ 2 := by
  simp only [quad4]; ring


/-- **`solve_cholesky` succeeds on every symmetric positive definite 4×4 matrix**: no pivot is
non-positive, so a vector is returned (which `cholSolve4_solves` shows to be the solution) -/
theorem cholSolve4_succeeds (a00 a10 a11 a20 a21 a22 a30 a31 a32 a33 b0 b1 b2 b3 : ℝ)
    (hPD : PosDef4 a00 a10 a11 a20 a21 a22 a30 a31 a32 a33) :
    ∃ x, cholSolve [[a00, a10, a20, a30], [a10, a11, a21, a31], [a20, a21, a22, a32], [a30, a31, a32, a33]]
      [b0, b1, b2, b3] = some x := by
  simp only [cholSolve, List.length_cons, List.length_nil, Nat.zero_add, Nat.reduceAdd, cholForward,
    List.getD_cons_zero, List.getD_cons_succ, cholRow0]
  -- pivot 0
  have hp0 : ¬ a00 ≤ 0 := by
    intro hle
    have := hPD 1 0 0 0 (Or.inl one_ne_zero)
    simp only [quad4] at this
    linarith
  rw [if_neg hp0]
  have e0 : √a00 * √a00 = a00 := Real.mul_self_sqrt (le_of_lt (not_le.1 hp0))
  have n0 : √a00 ≠ 0 := (Real.sqrt_pos.2 (not_le.1 hp0)).ne'
  generalize √a00 = d0 at *
  subst e0
  simp only [List.nil_append, cholRow1]
  -- pivot 1
  generalize hl10 : 1 / d0 * a10 = l10 at *
  obtain rfl : a10 = l10 * d0 := by rw [← hl10]; field_simp
  have hp1 : ¬ a11 - l10 * l10 ≤ 0 := by
    intro hle
    have := hPD (-(l10 / d0)) 1 0 0 (Or.inr (Or.inl one_ne_zero))
    rw [quad4_squares2] at this
    have hz : d0 * -(l10 / d0) + l10 * 1 = 0 := by field_simp; ring
    rw [hz] at this
    nlinarith
  rw [if_neg hp1]
  have e1 := Real.mul_self_sqrt (le_of_lt (not_le.1 hp1))
  have n1 := (Real.sqrt_pos.2 (not_le.1 hp1)).ne'
  generalize √(a11 - l10 * l10) = d1 at *
  obtain rfl : a11 = d1 * d1 + l10 * l10 := by linarith
  simp only [List.cons_append, List.nil_append, cholRow2]
  -- pivot 2
  generalize hl20 : 1 / d0 * a20 = l20 at *
  obtain rfl : a20 = l20 * d0 := by rw [← hl20]; field_simp
  generalize hl21 : 1 / d1 * (a21 - l20 * l10) = l21 at *
  obtain rfl : a21 = l21 * d1 + l20 * l10 := by rw [← hl21]; field_simp; ring
  have hp2 : ¬ a22 - (l20 * l20 + l21 * l21) ≤ 0 := by
    intro hle
    have := hPD (-((l10 * -(l21 / d1) + l20) / d0)) (-(l21 / d1)) 1 0 (Or.inr (Or.inr (Or.inl one_ne_zero)))
    rw [quad4_squares3] at this
    have hz1 : d1 * -(l21 / d1) + l21 * 1 = 0 := by field_simp; ring
    have hz0 : d0 * -((l10 * -(l21 / d1) + l20) / d0) + l10 * -(l21 / d1) + l20 * 1 = 0 := by field_simp; ring
    rw [hz0, hz1] at this
    nlinarith
  rw [if_neg hp2]
  have e2 := Real.mul_self_sqrt (le_of_lt (not_le.1 hp2))
  have n2 := (Real.sqrt_pos.2 (not_le.1 hp2)).ne'
  generalize √(a22 - (l20 * l20 + l21 * l21)) = d2 at *
  obtain rfl : a22 = d2 * d2 + (l20 * l20 + l21 * l21) := by linarith
  simp only [List.cons_append, List.nil_append, cholRow3]
  -- pivot 3
  generalize hl30 : 1 / d0 * a30 = l30 at *
  obtain rfl : a30 = l30 * d0 := by rw [← hl30]; field_simp
  generalize hl31 : 1 / d1 * (a31 - l30 * l10) = l31 at *
  obtain rfl : a31 = l31 * d1 + l30 * l10 := by rw [← hl31]; field_simp; ring
  generalize hl32 : 1 / d2 * (a32 - (l30 * l20 + l31 * l21)) = l32 at *
  obtain rfl : a32 = l32 * d2 + (l30 * l20 + l31 * l21) := by rw [← hl32]; field_simp; ring
  have hp3 : ¬ a33 - (l30 * l30 + (l31 * l31 + l32 * l32)) ≤ 0 := by
    intro hle
    have := hPD (-((l10 * -((l21 * -(l32 / d2) + l31) / d1) + l20 * -(l32 / d2) + l30) / d0))
      (-((l21 * -(l32 / d2) + l31) / d1)) (-(l32 / d2)) 1 (Or.inr (Or.inr (Or.inr one_ne_zero)))
    rw [quad4_squares] at this
    have hz2 : d2 * -(l32 / d2) + l32 * 1 = 0 := by field_simp; ring
    have hz1 : d1 * -((l21 * -(l32 / d2) + l31) / d1) + l21 * -(l32 / d2) + l31 * 1 = 0 := by field_simp; ring
    have hz0 : d0 * -((l10 * -((l21 * -(l32 / d2) + l31) / d1) + l20 * -(l32 / d2) + l30) / d0)
        + l10 * -((l21 * -(l32 / d2) + l31) / d1) + l20 * -(l32 / d2) + l30 * 1 = 0 := by field_simp; ring
    rw [hz0, hz1, hz2] at this
    nlinarith
  rw [if_neg hp3]
  exact ⟨_, rfl⟩

end Osu.Est
