import OsuProofs.FixedPoint

/-! `fixed_point_iteration`: every value that is returned met the stopping rule against the
previous iterate (whichever way the loop ended). -/
namespace Osu.Solv

variable {β : Type}

def Alive (e : FPElem β ℝ) : Prop := e.x0.isSome ∧ e.x1.isSome ∧ e.x2.isSome

theorem fpNext_alive (F : β → ℝ → ℝ) (cfg : FPConfig ℝ) (a : Bool) (e : FPElem β ℝ) (h : Alive e) :
    (fpNext F cfg a e).isSome := by
  obtain ⟨h0, h1, h2⟩ := h
  obtain ⟨a0, ha0⟩ := Option.isSome_iff_exists.1 h0
  obtain ⟨a1, ha1⟩ := Option.isSome_iff_exists.1 h1
  obtain ⟨a2, ha2⟩ := Option.isSome_iff_exists.1 h2
  simp [fpNext, ha0, ha1, ha2]

theorem fpConverged_some (cfg : FPConfig ℝ) (p n : Option ℝ) (h : fpConverged cfg p n = true) :
    p.isSome ∧ n.isSome := by
  cases p <;> cases n <;> simp [fpConverged] at h ⊢

/-- counting: if the `p`-elements are among the `q`-elements and there are as many, every `q`-element is a `p`-element -/
theorem filter_eq_of_length {γ : Type} (p q : γ → Bool) (l : List γ) (hpq : ∀ a ∈ l, p a = true → q a = true)
    (hlen : (l.filter p).length = (l.filter q).length) : ∀ a ∈ l, q a = true → p a = true := by
  induction l with
  | nil => intro a ha; simp at ha
  | cons b l ih =>
    have hle : (l.filter p).length ≤ (l.filter q).length := by
      have hsub : ∀ l' : List γ, (∀ a ∈ l', p a = true → q a = true) → (l'.filter p).length ≤ (l'.filter q).length := by
        intro l' h'
        induction l' with
        | nil => simp
        | cons c l' ih' =>
          have hc := h' c List.mem_cons_self
          have hr := ih' (fun a ha => h' a (List.mem_cons_of_mem _ ha))
          by_cases hp : p c = true
          · simp [List.filter_cons, hp, hc hp]; exact hr
          · by_cases hq : q c = true
            · simp [List.filter_cons, hp, hq]; omega
            · simp [List.filter_cons, hp, hq]; exact hr
      exact hsub l (fun a ha => hpq a (List.mem_cons_of_mem _ ha))
    intro a ha hqa
    by_cases hpb : p b = true
    · have hqb := hpq b List.mem_cons_self hpb
      simp only [List.filter_cons, hpb, hqb, if_true, List.length_cons, add_left_inj] at hlen
      rcases List.mem_cons.1 ha with rfl | ha'
      · exact hpb
      · exact ih (fun a ha => hpq a (List.mem_cons_of_mem _ ha)) hlen a ha' hqa
    · by_cases hqb : q b = true
      · simp only [List.filter_cons, hpb, hqb, if_true, List.length_cons] at hlen
        simp only [Bool.not_eq_true] at hpb
        simp only [hpb, Bool.false_eq_true, if_false] at hlen
        omega
      · simp only [Bool.not_eq_true] at hpb hqb
        simp only [List.filter_cons, hpb, hqb, Bool.false_eq_true, if_false] at hlen
        rcases List.mem_cons.1 ha with rfl | ha'
        · simp [hqb] at hqa
        · exact ih (fun a ha => hpq a (List.mem_cons_of_mem _ ha)) hlen a ha' hqa

/-- what every returned value satisfies: the code's convergence test against the previous iterate -/
def MetRule (cfg : FPConfig ℝ) (r : Option ℝ) : Prop :=
  ∀ x, r = some x → ∃ c, fpConverged cfg (some c) (some x) = true

theorem fpLoop_metRule (F : β → ℝ → ℝ) (cfg : FPConfig ℝ) (active fuel n : ℕ) (es : List (FPElem β ℝ))
    (hAD : ∀ e ∈ es, Alive e ∨ Dead e)
    (hact : active = (es.filter fun e => e.x2.isSome).length) :
    ∀ r ∈ fpLoop F cfg active fuel n es, MetRule cfg r := by
  induction fuel generalizing n es with
  | zero =>
    intro r hr
    simp only [fpLoop, List.mem_map] at hr
    obtain ⟨_, _, rfl⟩ := hr
    intro x hx; simp at hx
  | succ k ih =>
    simp only [fpLoop]
    set es' := es.map fun e =>
      ({ p := e.p, x0 := e.x1, x1 := e.x2, x2 := fpNext F cfg (cfg.aitken && n % 3 == 0) e } : FPElem β ℝ) with hes'
    have hAD' : ∀ e' ∈ es', Alive e' ∨ Dead e' := by
      intro e' he'
      simp only [hes', List.mem_map] at he'
      obtain ⟨e, he, rfl⟩ := he'
      rcases hAD e he with ha | hd
      · exact Or.inl ⟨ha.2.1, ha.2.2, fpNext_alive F cfg _ e ha⟩
      · exact Or.inr ⟨hd.2.1, hd.2.2, fpNext_dead F cfg _ e hd⟩
    have hact' : active = (es'.filter fun e => e.x2.isSome).length := by
      rw [hact, hes', List.filter_map, List.length_map]
      congr 1
      apply List.filter_congr
      intro e he
      simp only [Function.comp]
      rcases hAD e he with ha | hd
      · simp [ha.2.2, fpNext_alive F cfg _ e ha]
      · simp [hd.2.2, fpNext_dead F cfg _ e hd]
    have hmask : ∀ r ∈ fpMask cfg es', MetRule cfg r := by
      intro r hr
      simp only [fpMask, List.mem_map] at hr
      obtain ⟨e, _, rfl⟩ := hr
      intro x hx
      split at hx
      · rename_i hc
        obtain ⟨h1, _⟩ := fpConverged_some cfg _ _ hc
        obtain ⟨c, hc1⟩ := Option.isSome_iff_exists.1 h1
        exact ⟨c, by rw [← hc1, ← hx]; exact hc⟩
      · simp at hx
    split
    · rename_i hexit
      simp only [Bool.and_eq_true, beq_iff_eq] at hexit
      -- all alive elements converged
      have hall := filter_eq_of_length (fun e : FPElem β ℝ => fpConverged cfg e.x1 e.x2) (fun e => e.x2.isSome) es'
        (fun e _ hc => (fpConverged_some cfg _ _ hc).2) (by rw [hexit.1, hact'])
      intro r hr
      simp only [List.mem_map] at hr
      obtain ⟨e, he, rfl⟩ := hr
      intro x hx
      have hc := hall e he (by simp [hx])
      obtain ⟨h1, _⟩ := fpConverged_some cfg _ _ hc
      obtain ⟨c, hc1⟩ := Option.isSome_iff_exists.1 h1
      exact ⟨c, by rw [← hc1, ← hx]; exact hc⟩
    · split
      · exact hmask
      · exact ih (n + 1) es' hAD' hact'

/-- `fixed_point_iteration`: every returned (non-missing) value differs from the previous iterate
by less than `atol` and `rtol·max(|prev|, atol)` — whichever way the loop ended -/
theorem fixedPoint_metRule (F : β → ℝ → ℝ) (cfg : FPConfig ℝ) (guess : List (β × Option ℝ)) :
    ∀ r ∈ fixedPoint F cfg guess, MetRule cfg r := by
  simp only [fixedPoint]
  apply fpLoop_metRule
  · intro e he
    simp only [List.mem_map] at he
    obtain ⟨g, _, rfl⟩ := he
    cases hg : g.2 with
    | none => exact Or.inr ⟨by simp [hg], by simp [hg], by simp [hg]⟩
    | some v => exact Or.inl ⟨by simp [hg], by simp [hg], by simp [hg]⟩
  · rw [List.filter_map, List.length_map]
    rfl

end Osu.Solv
