import OsuProofs.RotationST

/-! Whole-field versions of the rotation statements for the list model: ST4 wind input and ST6
dissipation on a uniform direction grid (C09). -/
namespace Osu.Rot

open Real Finset Osu.ST

variable {N : ℕ} [NeZero N]

/-- the uniform grid in the form the model takes it (directions in radians, steps in degrees) -/
noncomputable def uniformGrid (θ0 : ℝ) (om df : List ℝ) : Grid ℝ :=
  { omega := om, theta := List.ofFn fun j : Fin N => deg2rad (theta θ0 j), df := df, dth := List.ofFn fun _ : Fin N => dθ N }

/-- a spectrum given row by row as functions of the direction index -/
def fieldOf (rows : List (Fin N → ℝ)) : List (List ℝ) := rows.map List.ofFn

/-- the spectrum rotated by `k` direction bins -/
def rotField (k : Fin N) (rows : List (Fin N → ℝ)) : List (Fin N → ℝ) := rows.map (rotE k)

/-- **ST4 wind input, whole field**: rotating spectrum and wind together by `k` bins rotates the
model's field by `k` bins (at fixed roughness) — for every frequency grid, depth, parameter set -/
theorem st4Input_field_rot (p : GenP ℝ) (θ0 : ℝ) (om df : List ℝ) (kin : Kin ℝ) (rows : List (Fin N → ℝ))
    (w : Wind ℝ) (z0 : ℝ) (k : Fin N) :
    st4Input rfloor p (uniformGrid (N := N) θ0 om df) kin (fieldOf (rotField k rows))
        { w with dirDeg := w.dirDeg + (k : ℕ) * dθ N } z0
      = fieldOf (rotField k
          ((List.zipWith (fun (r : Fin N → ℝ) (ko : ℝ × ℝ) =>
              inputRow p ko.1 ko.2 (frictionVelocity p w z0) z0 θ0 w.dirDeg r) rows (kin.k.zip om)))) := by
  have hu : frictionVelocity p { w with dirDeg := w.dirDeg + (k : ℕ) * dθ N } z0 = frictionVelocity p w z0 := rfl
  simp only [st4Input, uniformGrid, hu, fieldOf, rotField]
  generalize kin.k.zip om = KO
  induction rows generalizing KO with
  | nil => simp
  | cons r rows ih =>
    cases KO with
    | nil => simp
    | cons ko KO =>
      simp only [List.map_cons, List.zipWith_cons_cons, ih KO]
      congr 1
      rw [st4_row_bridge, inputRow_rot]

/-- the model's field at the original wind, in the same row form -/
theorem st4Input_field (p : GenP ℝ) (θ0 : ℝ) (om df : List ℝ) (kin : Kin ℝ) (rows : List (Fin N → ℝ)) (w : Wind ℝ) (z0 : ℝ) :
    st4Input rfloor p (uniformGrid (N := N) θ0 om df) kin (fieldOf rows) w z0
      = fieldOf (List.zipWith (fun (r : Fin N → ℝ) (ko : ℝ × ℝ) =>
          inputRow p ko.1 ko.2 (frictionVelocity p w z0) z0 θ0 w.dirDeg r) rows (kin.k.zip om)) := by
  simp only [st4Input, uniformGrid, fieldOf]
  generalize kin.k.zip om = KO
  induction rows generalizing KO with
  | nil => simp
  | cons r rows ih =>
    cases KO with
    | nil => simp
    | cons ko KO =>
      simp only [List.map_cons, List.zipWith_cons_cons, ih KO]
      congr 1
      rw [st4_row_bridge]

/-! ### ST6 -/

theorem dirIntegrate_rot (θ0 : ℝ) (om df : List ℝ) (rows : List (Fin N → ℝ)) (k : Fin N) :
    dirIntegrate (uniformGrid (N := N) θ0 om df) (fieldOf (rotField k rows))
      = dirIntegrate (uniformGrid (N := N) θ0 om df) (fieldOf rows) := by
  simp only [dirIntegrate, fieldOf, rotField, uniformGrid, List.map_map]
  apply List.map_congr_left
  intro r _
  simp only [Function.comp]
  rw [zipWith_ofFn, zipWith_ofFn, st_lsum_ofFn, st_lsum_ofFn]
  exact dirIntegral_rot k r (dθ N)

/-- **ST6 dissipation, whole field**: the saturation spectrum is a direction integral, so every
per-frequency coefficient is unchanged and the field of the rotated spectrum is the rotated field -/
theorem st6_field_rot (sp : St6P ℝ) (θ0 : ℝ) (om df : List ℝ) (kin : Kin ℝ) (rows : List (Fin N → ℝ)) (k : Fin N) :
    ∃ coef : List (ℝ × ℝ × ℝ),
      st6Dissipation sp (uniformGrid (N := N) θ0 om df) kin (fieldOf rows)
        = fieldOf (List.zipWith (fun (r : Fin N → ℝ) (c : ℝ × ℝ × ℝ) => fun j => st6Entry sp c.1 c.2.1 c.2.2 (r j)) rows coef) ∧
      st6Dissipation sp (uniformGrid (N := N) θ0 om df) kin (fieldOf (rotField k rows))
        = fieldOf (rotField k (List.zipWith (fun (r : Fin N → ℝ) (c : ℝ × ℝ × ℝ) => fun j => st6Entry sp c.1 c.2.1 c.2.2 (r j)) rows coef)) := by
  -- the coefficient list (exceedance, running sum, radian frequency) of the unrotated spectrum
  refine ⟨(st6Exceedance sp (uniformGrid (N := N) θ0 om df) kin (fieldOf rows)).zip
      ((runSums 0 (List.zipWith (· * ·) (st6Exceedance sp (uniformGrid (N := N) θ0 om df) kin (fieldOf rows)) df)).zip om), ?_, ?_⟩
  · simp only [st6Dissipation, uniformGrid, fieldOf]
    generalize (st6Exceedance sp _ kin (List.map List.ofFn rows)).zip _ = C
    induction rows generalizing C with
    | nil => simp
    | cons r rows ih =>
      cases C with
      | nil => simp
      | cons c C =>
        simp only [List.map_cons, List.zipWith_cons_cons, ih C]
        congr 1
        rw [List.map_ofFn]; rfl
  · have hex : st6Exceedance sp (uniformGrid (N := N) θ0 om df) kin (fieldOf (rotField k rows))
        = st6Exceedance sp (uniformGrid (N := N) θ0 om df) kin (fieldOf rows) := by
      simp only [st6Exceedance, dirIntegrate_rot]
    simp only [st6Dissipation, hex]
    clear hex
    simp only [uniformGrid, fieldOf, rotField]
    generalize (st6Exceedance sp _ kin (List.map List.ofFn rows)).zip _ = C
    induction rows generalizing C with
    | nil => simp
    | cons r rows ih =>
      cases C with
      | nil => simp
      | cons c C =>
        simp only [List.map_cons, List.zipWith_cons_cons, ih C]
        congr 1
        rw [List.map_ofFn]; rfl

end Osu.Rot
