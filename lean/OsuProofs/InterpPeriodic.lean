import OsuProofs.Interp

namespace Osu.Interp
open Osu.Spec

variable {α : Type} [Field α] [LinearOrder α] [IsStrictOrderedRing α]
set_option linter.unusedSectionVars false

/-- `pmod` is periodic -/
theorem pmod_add_int_mul {floor : α → ℤ} (hf : IsFloor floor) (y P : α) (hP : 0 < P) (k : ℤ) :
    pmod floor (y + k * P) P = pmod floor y P := by
  obtain ⟨g1, g2⟩ := hf (y / P)
  have hfl : floor ((y + k * P) / P) = floor (y / P) + k := by
    apply floor_unique hf
    · rw [add_div, mul_div_assoc, div_self (ne_of_gt hP), mul_one]; push_cast; linarith
    · rw [add_div, mul_div_assoc, div_self (ne_of_gt hP), mul_one]; push_cast; linarith
  simp only [pmod, hfl]; push_cast; ring

theorem pmod_eq {floor : α → ℤ} (hf : IsFloor floor) (y P : α) (hP : 0 < P) :
    ∃ k : ℤ, pmod floor y P = y - P * k := ⟨floor (y / P), rfl⟩

/-- `wrapDiff` is periodic -/
theorem wrapDiff_add_int_mul {floor : α → ℤ} (hf : IsFloor floor) (P d δ : α) (hP : 0 < P) (k : ℤ) :
    wrapDiff floor P d (δ + k * P) = wrapDiff floor P d δ := by
  simp only [wrapDiff]
  rw [show δ + k * P + P - d = (δ + P - d) + k * P by ring, pmod_add_int_mul hf _ _ hP]

/-- `periodic_shift`: shifting the target by any whole number of periods changes neither the
enclosing indices nor the fraction. -/
theorem periodic_shift {floor : α → ℤ} (hf : IsFloor floor) {xp : List α} (g : Grid xp) (P : α) (hP : 0 < P)
    (x : α) (k : ℤ) :
    enclosingPeriodic floor xp P (x + k * P) = enclosingPeriodic floor xp P x ∧
    fracPeriodic floor xp P (x + k * P) = fracPeriodic floor xp P x := by
  have e1 : enclosingPeriodic floor xp P (x + k * P) = enclosingPeriodic floor xp P x := by
    simp only [enclosingPeriodic, flip_ascending xp g.sorted, id]
    rw [show x + k * P - getD0 xp 0 = (x - getD0 xp 0) + k * P by ring, pmod_add_int_mul hf _ _ hP]
  refine ⟨e1, ?_⟩
  simp only [fracPeriodic, flip_ascending xp g.sorted, id, e1]
  rw [show x + k * P - getD0 xp (enclosingPeriodic floor xp P x).1 =
    (x - getD0 xp (enclosingPeriodic floor xp P x).1) + k * P by ring,
    wrapDiff_add_int_mul hf _ _ _ hP]

/-- a grid covering the circle once: within one period, every cyclic gap below half a period -/
structure CircleGrid (xp : List α) (P : α) : Prop extends Grid xp where
  pos : 0 < P
  gaps : ∀ k, k + 1 < xp.length → getD0 xp (k + 1) - getD0 xp k < P / 2
  wrapGap : getD0 xp 0 + P - getD0 xp (xp.length - 1) < P / 2
  oneTurn : getD0 xp (xp.length - 1) < getD0 xp 0 + P

/-- `periodic_neighbours`: on a grid covering the circle every target — however many periods
away — is bracketed by two cyclically adjacent nodes, including the pair (last, first) that spans
the wrap, with a fraction in [0, 1): no target is out of range. -/
theorem periodic_neighbours {floor : α → ℤ} (hf : IsFloor floor) {xp : List α} {P : α}
    (cg : CircleGrid xp P) (x : α) :
    let i := enclosingPeriodic floor xp P x
    i.1 < xp.length ∧ i.2 = (i.1 + 1) % xp.length ∧
    0 ≤ fracPeriodic floor xp P x ∧ fracPeriodic floor xp P x < 1 := by
  have g := cg.toGrid
  have hP := cg.pos
  have hn := g.two
  set a := getD0 xp 0 with ha
  set xr := pmod floor (x - a) P + a with hxr
  obtain ⟨r1, r2⟩ := pmod_range hf (x - a) P hP
  obtain ⟨kk, hkk⟩ := pmod_eq hf (x - a) P hP
  have hxr1 : a ≤ xr := by linarith
  have hxr2 : xr < a + P := by linarith
  obtain ⟨s1, s2⟩ := countLE_spec xp xr g.sorted
  have hc1 : 1 ≤ countLE xp xr := by
    by_contra hc
    have : countLE xp xr = 0 := by omega
    have := s2 0 (by omega) (by omega)
    linarith
  have hcn := countLE_le_length xp xr
  have hi : enclosingPeriodic floor xp P x = ((countLE xp xr + xp.length - 1) % xp.length, countLE xp xr % xp.length) := by
    simp only [enclosingPeriodic, flip_ascending xp g.sorted, id]
    rfl
  simp only [hi]
  have hxcong : ∀ y : α, x - y = (xr - y) + (kk : ℤ) * P := by
    intro y; rw [hxr, hkk]; ring
  rcases Nat.lt_or_ge (countLE xp xr) xp.length with hlt | hge
  · -- interior pair (c-1, c)
    have e0 : (countLE xp xr + xp.length - 1) % xp.length = countLE xp xr - 1 := by
      rw [show countLE xp xr + xp.length - 1 = (countLE xp xr - 1) + xp.length by omega, Nat.add_mod_right]
      exact Nat.mod_eq_of_lt (by omega)
    have e1 : countLE xp xr % xp.length = countLE xp xr := Nat.mod_eq_of_lt hlt
    have hlo := s1 (countLE xp xr - 1) (by omega)
    have hhi := s2 (countLE xp xr) (le_refl _) hlt
    have hgap := cg.gaps (countLE xp xr - 1) (by omega)
    have hk1 : countLE xp xr - 1 + 1 = countLE xp xr := by omega
    rw [hk1] at hgap
    refine ⟨by rw [e0]; omega, by rw [e0, e1, hk1, Nat.mod_eq_of_lt hlt], ?_⟩
    simp only [fracPeriodic, flip_ascending xp g.sorted, id, hi, e0, e1]
    have dxp : wrapDiff floor P (P / ((2 : ℕ) : α)) (getD0 xp (countLE xp xr) - getD0 xp (countLE xp xr - 1)) =
        getD0 xp (countLE xp xr) - getD0 xp (countLE xp xr - 1) := by
      apply wrapDiff_eq hf P _ _ _ hP 0 (by simp) <;> norm_num <;> linarith
    have dx : wrapDiff floor P (P / ((2 : ℕ) : α)) (x - getD0 xp (countLE xp xr - 1)) =
        xr - getD0 xp (countLE xp xr - 1) := by
      apply wrapDiff_eq hf P _ _ _ hP kk
      · rw [hxcong]; ring
      · norm_num; linarith
      · norm_num; linarith
    rw [dxp, dx]
    constructor
    · apply div_nonneg <;> linarith
    · rw [div_lt_one (by linarith)]; linarith
  · -- the pair that spans the wrap: (n-1, 0)
    have hceq : countLE xp xr = xp.length := by omega
    have e0 : (countLE xp xr + xp.length - 1) % xp.length = xp.length - 1 := by
      rw [hceq, show xp.length + xp.length - 1 = (xp.length - 1) + xp.length by omega, Nat.add_mod_right]
      exact Nat.mod_eq_of_lt (by omega)
    have e1 : countLE xp xr % xp.length = 0 := by rw [hceq]; exact Nat.mod_self _
    have hlo := s1 (xp.length - 1) (by omega)
    have hw := cg.wrapGap
    refine ⟨by rw [e0]; omega, by rw [e0, e1, show xp.length - 1 + 1 = xp.length by omega, Nat.mod_self], ?_⟩
    simp only [fracPeriodic, flip_ascending xp g.sorted, id, hi, e0, e1]
    have dxp : wrapDiff floor P (P / ((2 : ℕ) : α)) (getD0 xp 0 - getD0 xp (xp.length - 1)) =
        getD0 xp 0 + P - getD0 xp (xp.length - 1) := by
      apply wrapDiff_eq hf P _ _ _ hP (-1) (by push_cast; ring)
      · norm_num; linarith [cg.oneTurn]
      · norm_num; linarith
    have dx : wrapDiff floor P (P / ((2 : ℕ) : α)) (x - getD0 xp (xp.length - 1)) =
        xr - getD0 xp (xp.length - 1) := by
      apply wrapDiff_eq hf P _ _ _ hP kk
      · rw [hxcong]; ring
      · norm_num; linarith
      · norm_num; linarith
    rw [dxp, dx]
    constructor
    · apply div_nonneg <;> linarith [cg.oneTurn]
    · rw [div_lt_one (by linarith [cg.oneTurn])]; linarith

end Osu.Interp
