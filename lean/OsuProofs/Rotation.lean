import OsuProofs.RealTransc
import OsuModel.Spectral
import Mathlib.Algebra.BigOperators.Fin
import Mathlib.Tactic.Ring
import Mathlib.Tactic.Linarith
import Mathlib.Tactic.FieldSimp

/-! Rotation / mirror of a uniform direction grid (C03, reused by C06 and C09). -/

namespace Osu.Rot

open Real Finset

/-- cosine / sine of an angle in degrees -/
noncomputable def cosd (x : ℝ) : ℝ := Real.cos (x * π / 180)
noncomputable def sind (x : ℝ) : ℝ := Real.sin (x * π / 180)

theorem cosd_add (x y : ℝ) : cosd (x + y) = cosd x * cosd y - sind x * sind y := by
  simp only [cosd, sind]; rw [show (x + y) * π / 180 = x * π / 180 + y * π / 180 by ring, Real.cos_add]

theorem sind_add (x y : ℝ) : sind (x + y) = sind x * cosd y + cosd x * sind y := by
  simp only [cosd, sind]; rw [show (x + y) * π / 180 = x * π / 180 + y * π / 180 by ring, Real.sin_add]

theorem cosd_sub_360 (x : ℝ) (q : ℕ) : cosd (x - q * 360) = cosd x := by
  simp only [cosd]
  rw [show (x - q * 360) * π / 180 = x * π / 180 - q * (2 * π) by ring, Real.cos_sub_nat_mul_two_pi]

theorem sind_sub_360 (x : ℝ) (q : ℕ) : sind (x - q * 360) = sind x := by
  simp only [sind]
  rw [show (x - q * 360) * π / 180 = x * π / 180 - q * (2 * π) by ring, Real.sin_sub_nat_mul_two_pi]

theorem cosd_sq_add_sind_sq (x : ℝ) : cosd x ^ 2 + sind x ^ 2 = 1 := by
  simp only [cosd, sind]; exact Real.cos_sq_add_sin_sq _

variable {N : ℕ} [NeZero N]

/-- bin width of a uniform grid of `N` directions -/
noncomputable def dθ (N : ℕ) : ℝ := 360 / N

/-- direction of bin `j` on the uniform grid starting at `θ0` -/
noncomputable def theta (θ0 : ℝ) (j : Fin N) : ℝ := θ0 + (j : ℕ) * dθ N

/-- the spectrum rotated by `k` bins: energy that was in bin `j - k` is now in bin `j` -/
def rotE (k : Fin N) (E : Fin N → ℝ) : Fin N → ℝ := fun j => E (j - k)

/-- un-normalised directional moments of one frequency row on the uniform grid -/
noncomputable def eSum (E : Fin N → ℝ) : ℝ := ∑ j, E j * dθ N
noncomputable def Acos (m : ℕ) (θ0 : ℝ) (E : Fin N → ℝ) : ℝ := ∑ j, E j * cosd (m * theta θ0 j) * dθ N
noncomputable def Bsin (m : ℕ) (θ0 : ℝ) (E : Fin N → ℝ) : ℝ := ∑ j, E j * sind (m * theta θ0 j) * dθ N

theorem theta_add (θ0 : ℝ) (j k : Fin N) :
    ∃ q : ℕ, theta θ0 (j + k) = theta θ0 j + (k : ℕ) * dθ N - q * 360 := by
  have hN : (N : ℝ) ≠ 0 := Nat.cast_ne_zero.2 (NeZero.ne N)
  refine ⟨((j : ℕ) + (k : ℕ)) / N, ?_⟩
  have hmod : ((j + k : Fin N) : ℕ) = ((j : ℕ) + (k : ℕ)) % N := Fin.val_add j k
  have hdm := Nat.div_add_mod ((j : ℕ) + (k : ℕ)) N
  have : (((j + k : Fin N) : ℕ) : ℝ) = ((j : ℕ) : ℝ) + ((k : ℕ) : ℝ) - N * ((((j : ℕ) + (k : ℕ)) / N : ℕ) : ℝ) := by
    rw [hmod]
    have h2 : ((((j : ℕ) + (k : ℕ)) % N : ℕ) : ℝ) = (((j : ℕ) + (k : ℕ) : ℕ) : ℝ) - ((N * (((j : ℕ) + (k : ℕ)) / N) : ℕ) : ℝ) := by
      rw [eq_sub_iff_add_eq, ← Nat.cast_add]; congr 1; omega
    rw [h2]; push_cast; ring
  simp only [theta, dθ, this]
  field_simp
  ring

/-- energy is conserved by a rotation -/
theorem eSum_rot (k : Fin N) (E : Fin N → ℝ) : eSum (rotE k E) = eSum E := by
  simp only [eSum, rotE]
  exact Fintype.sum_equiv (Equiv.subRight k) _ _ (fun j => by simp)

/-- the m-th harmonic moments rotate by `m·k·Δθ` -/
theorem Acos_rot (m : ℕ) (θ0 : ℝ) (k : Fin N) (E : Fin N → ℝ) :
    Acos m θ0 (rotE k E) =
      cosd (m * ((k : ℕ) * dθ N)) * Acos m θ0 E - sind (m * ((k : ℕ) * dθ N)) * Bsin m θ0 E := by
  simp only [Acos, Bsin, rotE]
  rw [Finset.mul_sum, Finset.mul_sum, ← Finset.sum_sub_distrib]
  rw [← Fintype.sum_equiv (Equiv.addRight k) (fun j => E j * cosd (m * theta θ0 (j + k)) * dθ N)
    (fun j => E (j - k) * cosd (m * theta θ0 j) * dθ N) (fun j => by simp)]
  apply Finset.sum_congr rfl
  intro j _
  obtain ⟨q, hq⟩ := theta_add θ0 j k
  rw [hq, show (m : ℝ) * (theta θ0 j + (k : ℕ) * dθ N - q * 360) =
      (m * theta θ0 j + m * ((k : ℕ) * dθ N)) - ((m * q : ℕ) : ℝ) * 360 by push_cast; ring,
    cosd_sub_360, cosd_add]
  ring

theorem Bsin_rot (m : ℕ) (θ0 : ℝ) (k : Fin N) (E : Fin N → ℝ) :
    Bsin m θ0 (rotE k E) =
      sind (m * ((k : ℕ) * dθ N)) * Acos m θ0 E + cosd (m * ((k : ℕ) * dθ N)) * Bsin m θ0 E := by
  simp only [Acos, Bsin, rotE]
  rw [Finset.mul_sum, Finset.mul_sum, ← Finset.sum_add_distrib]
  rw [← Fintype.sum_equiv (Equiv.addRight k) (fun j => E j * sind (m * theta θ0 (j + k)) * dθ N)
    (fun j => E (j - k) * sind (m * theta θ0 j) * dθ N) (fun j => by simp)]
  apply Finset.sum_congr rfl
  intro j _
  obtain ⟨q, hq⟩ := theta_add θ0 j k
  rw [hq, show (m : ℝ) * (theta θ0 j + (k : ℕ) * dθ N - q * 360) =
      (m * theta θ0 j + m * ((k : ℕ) * dθ N)) - ((m * q : ℕ) : ℝ) * 360 by push_cast; ring,
    sind_sub_360, sind_add]
  ring

/-- the squared magnitude of a moment pair is rotation invariant -/
theorem mag_rot (m : ℕ) (θ0 : ℝ) (k : Fin N) (E : Fin N → ℝ) :
    Acos m θ0 (rotE k E) ^ 2 + Bsin m θ0 (rotE k E) ^ 2 = Acos m θ0 E ^ 2 + Bsin m θ0 E ^ 2 := by
  rw [Acos_rot, Bsin_rot]
  have := cosd_sq_add_sind_sq (m * ((k : ℕ) * dθ N))
  nlinarith [this]

end Osu.Rot
