import OsuProofs.EstPD
import OsuProofs.CholeskyPD
import OsuProofs.CholeskyNewton

/-! On a uniform grid with at least five directions the MEM2 Jacobian is positive definite, so
`solve_cholesky` always succeeds on it and returns the exact Newton step (C06). -/
namespace Osu.Est

open Real Finset Osu.Rot

variable {N : ℕ} [NeZero N]

theorem grid_recs (θ0 Δ : ℝ) :
    (gridT (N := N) θ0).zip (gridDelta N Δ) = List.ofFn fun j : Fin N => (twiddleCol (thetaR θ0 j), Δ) := by
  simp only [gridT, gridDelta, List.zip]
  exact zipWith_ofFn _ _ _

/-- **the constraint Jacobian is positive definite** for every multiplier vector, on every uniform
grid with `N ≥ 5` directions and positive increment -/
theorem jacobian_posDef (hN : 5 ≤ N) (θ0 Δ : ℝ) (hΔ : 0 < Δ) (lam : List ℝ) :
    PosDef4 (jacEntry lam (gridDelta N Δ) (gridT (N := N) θ0) 0 0)
      (jacEntry lam (gridDelta N Δ) (gridT (N := N) θ0) 1 0) (jacEntry lam (gridDelta N Δ) (gridT (N := N) θ0) 1 1)
      (jacEntry lam (gridDelta N Δ) (gridT (N := N) θ0) 2 0) (jacEntry lam (gridDelta N Δ) (gridT (N := N) θ0) 2 1)
      (jacEntry lam (gridDelta N Δ) (gridT (N := N) θ0) 2 2)
      (jacEntry lam (gridDelta N Δ) (gridT (N := N) θ0) 3 0) (jacEntry lam (gridDelta N Δ) (gridT (N := N) θ0) 3 1)
      (jacEntry lam (gridDelta N Δ) (gridT (N := N) θ0) 3 2) (jacEntry lam (gridDelta N Δ) (gridT (N := N) θ0) 3 3) := by
  have hN0 : 0 < N := by omega
  have hδ : ∀ d ∈ gridDelta N Δ, 0 < d := by
    intro d hd; simp only [gridDelta, List.mem_ofFn] at hd; obtain ⟨_, rfl⟩ := hd; exact hΔ
  have hT : gridT (N := N) θ0 ≠ [] := by
    intro h; have := congrArg List.length h; simp [gridT] at this; omega
  have hd : gridDelta N Δ ≠ [] := by
    intro h; have := congrArg List.length h; simp [gridDelta] at this; omega
  intro v0 v1 v2 v3 hv
  have hc : ∀ m n, n < 4 → jacEntry lam (gridDelta N Δ) (gridT (N := N) θ0) m n
      = covEntry lam ((gridT (N := N) θ0).zip (gridDelta N Δ)) m n :=
    fun m n hn => jacEntry_closed lam _ _ m n hn hδ hT hd
  set recs := (gridT (N := N) θ0).zip (gridDelta N Δ) with hrecs
  have hq : quad4 (covEntry lam recs 0 0) (covEntry lam recs 1 0) (covEntry lam recs 1 1) (covEntry lam recs 2 0)
      (covEntry lam recs 2 1) (covEntry lam recs 2 2) (covEntry lam recs 3 0) (covEntry lam recs 3 1) (covEntry lam recs 3 2)
      (covEntry lam recs 3 3) v0 v1 v2 v3
      = v0 * (v0 * covEntry lam recs 0 0 + v1 * covEntry lam recs 0 1 + v2 * covEntry lam recs 0 2 + v3 * covEntry lam recs 0 3)
      + v1 * (v0 * covEntry lam recs 1 0 + v1 * covEntry lam recs 1 1 + v2 * covEntry lam recs 1 2 + v3 * covEntry lam recs 1 3)
      + v2 * (v0 * covEntry lam recs 2 0 + v1 * covEntry lam recs 2 1 + v2 * covEntry lam recs 2 2 + v3 * covEntry lam recs 2 3)
      + v3 * (v0 * covEntry lam recs 3 0 + v1 * covEntry lam recs 3 1 + v2 * covEntry lam recs 3 2 + v3 * covEntry lam recs 3 3) := by
    simp only [quad4]
    rw [covEntry_symm lam recs 0 1, covEntry_symm lam recs 0 2, covEntry_symm lam recs 0 3, covEntry_symm lam recs 1 2,
      covEntry_symm lam recs 1 3, covEntry_symm lam recs 2 3]
    ring
  rw [hc 0 0 (by omega), hc 1 0 (by omega), hc 1 1 (by omega), hc 2 0 (by omega), hc 2 1 (by omega), hc 2 2 (by omega),
    hc 3 0 (by omega), hc 3 1 (by omega), hc 3 2 (by omega), hc 3 3 (by omega), hq, covEntry_quadratic]
  have hrpos : ∀ r ∈ recs, 0 < r.2 := by
    intro r hr; exact hδ _ (List.of_mem_zip hr).2
  have hne : recs ≠ [] := by
    rw [hrecs, grid_recs]
    intro h; have := congrArg List.length h; simp at this; omega
  apply variance_pos _ lam recs hrpos hne
  intro c
  obtain ⟨j, hj⟩ := yForm_not_constant hN θ0 v0 v1 v2 v3 hv c
  refine ⟨(twiddleCol (thetaR θ0 j), Δ), ?_, hj⟩
  rw [hrecs, grid_recs]
  exact (List.mem_ofFn' _ _).mpr ⟨j, rfl⟩


/-- only the first four entries of the right-hand side are read -/
theorem cholSolve_rhs4 (r0 r1 r2 r3 : List ℝ) (g : List ℝ) :
    cholSolve [r0, r1, r2, r3] g = cholSolve [r0, r1, r2, r3] [g.getD 0 0, g.getD 1 0, g.getD 2 0, g.getD 3 0] := by
  simp only [cholSolve, List.length_cons, List.length_nil, Nat.zero_add, Nat.reduceAdd, cholForward,
    List.getD_cons_zero, List.getD_cons_succ]

theorem toVec_first4 (g : List ℝ) : toVec [g.getD 0 0, g.getD 1 0, g.getD 2 0, g.getD 3 0] = toVec g := by
  funext i
  fin_cases i <;> simp [toVec]

/-- **the Cholesky solver of the model is an exact, always-successful solver of the Newton step** on
uniform grids with at least five directions: the hypothesis `ExactSolve` of the rotation and mirror
theorems of the Newton iteration holds for it -/
theorem exactSolve_cholesky (hN : 5 ≤ N) (bad θ0 Δ : ℝ) (hΔ : 0 < Δ) : ExactSolve (N := N) (cholSolve4 bad) θ0 Δ := by
  constructor
  · intro J g
    simp only [cholSolve4]
    split
    · split
      · assumption
      · simp
    · simp
  · intro lam g
    have hpd := jacobian_posDef hN θ0 Δ hΔ lam
    obtain ⟨x, hx⟩ := cholSolve4_succeeds _ _ _ _ _ _ _ _ _ _ (g.getD 0 0) (g.getD 1 0) (g.getD 2 0) (g.getD 3 0) hpd
    have hx' : cholSolve (jacobian lam (gridDelta N Δ) (gridT (N := N) θ0)) g = some x := by
      rw [jacobian_explicit, cholSolve_rhs4]; exact hx
    have hx'' : cholSolve (jacobian lam (gridDelta N Δ) (gridT (N := N) θ0)) [g.getD 0 0, g.getD 1 0, g.getD 2 0, g.getD 3 0] = some x := by
      rw [jacobian_explicit]; exact hx
    obtain ⟨hlen, hsol⟩ := cholSolve_jacobian_exact lam _ _ _ _ _ _ x hx''
    simp only [cholSolve4, hx', hlen, if_true]
    rw [hsol, toVec_first4]
  · intro lam v hv
    have hpd := jacobian_posDef hN θ0 Δ hΔ lam
    by_contra hne
    have hv' : v 0 ≠ 0 ∨ v 1 ≠ 0 ∨ v 2 ≠ 0 ∨ v 3 ≠ 0 := by
      by_contra hall
      push_neg at hall
      apply hne
      funext i
      fin_cases i
      · exact hall.1
      · exact hall.2.1
      · exact hall.2.2.1
      · exact hall.2.2.2
    have hpos := hpd (v 0) (v 1) (v 2) (v 3) hv'
    -- vᵀ (J v) = 0
    have h0 := congrFun hv 0
    have h1 := congrFun hv 1
    have h2 := congrFun hv 2
    have h3 := congrFun hv 3
    simp only [Matrix.mulVec, dotProduct, toMat, Fin.sum_univ_four, jacobian_explicit, Pi.zero_apply] at h0 h1 h2 h3
    simp only [List.getD_cons_zero, List.getD_cons_succ, Fin.val_zero, Fin.val_one, Fin.val_two,
      show ((3 : Fin 4) : ℕ) = 3 from rfl] at h0 h1 h2 h3
    have : quad4 (jacEntry lam (gridDelta N Δ) (gridT (N := N) θ0) 0 0)
      (jacEntry lam (gridDelta N Δ) (gridT (N := N) θ0) 1 0) (jacEntry lam (gridDelta N Δ) (gridT (N := N) θ0) 1 1)
      (jacEntry lam (gridDelta N Δ) (gridT (N := N) θ0) 2 0) (jacEntry lam (gridDelta N Δ) (gridT (N := N) θ0) 2 1)
      (jacEntry lam (gridDelta N Δ) (gridT (N := N) θ0) 2 2)
      (jacEntry lam (gridDelta N Δ) (gridT (N := N) θ0) 3 0) (jacEntry lam (gridDelta N Δ) (gridT (N := N) θ0) 3 1)
      (jacEntry lam (gridDelta N Δ) (gridT (N := N) θ0) 3 2) (jacEntry lam (gridDelta N Δ) (gridT (N := N) θ0) 3 3)
      (v 0) (v 1) (v 2) (v 3) = 0 := by
      simp only [quad4]
      linear_combination (v 0) * h0 + (v 1) * h1 + (v 2) * h2 + (v 3) * h3
    linarith

end Osu.Est
