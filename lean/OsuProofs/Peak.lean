import OsuProofs.Spectral

namespace Osu.Spec

variable {α : Type} [Field α] [LinearOrder α] [IsStrictOrderedRing α]
set_option linter.unusedSectionVars false

/-- `best` is the first maximum of the in-band, non-missing values of `pre` -/
def IsBest (fmin : α) (fmax : Option α) (pre : List (α × Option α)) : Option (ℕ × α) → Prop
  | none => ∀ q ∈ pre, inBand fmin fmax q.1 = true → q.2 = none
  | some (j, v) =>
      (∃ f, pre[j]? = some (f, some v) ∧ inBand fmin fmax f = true) ∧
      ∀ k f u, pre[k]? = some (f, some u) → inBand fmin fmax f = true → u ≤ v ∧ (k < j → u < v)

/-- one iteration of the scan -/
def stepBest (fmin : α) (fmax : Option α) (f : α) (e : Option α) (best : Option (ℕ × α)) (i : ℕ) :
    Option (ℕ × α) :=
  if inBand fmin fmax f then
    match e, best with
    | some v, none => some (i, v)
    | some v, some (j, b) => if b < v then some (i, v) else some (j, b)
    | none, b => b
  else best

theorem peakIndexAux_cons (fmin : α) (fmax : Option α) (f : α) (e : Option α) (r : List (α × Option α))
    (i : ℕ) (best : Option (ℕ × α)) :
    peakIndexAux fmin fmax ((f, e) :: r) i best =
      peakIndexAux fmin fmax r (i + 1) (stepBest fmin fmax f e best i) := rfl

theorem isBest_step (fmin : α) (fmax : Option α) (pre : List (α × Option α)) (f : α) (e : Option α)
    (best : Option (ℕ × α)) (h : IsBest fmin fmax pre best) :
    IsBest fmin fmax (pre ++ [(f, e)]) (stepBest fmin fmax f e best pre.length) := by
  unfold stepBest
  have getlast : (pre ++ [(f, e)])[pre.length]? = some (f, e) := by simp
  have getold : ∀ k, k < pre.length → (pre ++ [(f, e)])[k]? = pre[k]? := by
    intro k hk; simp [List.getElem?_append_left hk]
  have cases_k : ∀ k g u, (pre ++ [(f, e)])[k]? = some (g, some u) →
      (k < pre.length ∧ pre[k]? = some (g, some u)) ∨ (k = pre.length ∧ g = f ∧ e = some u) := by
    intro k g u hk
    by_cases hlt : k < pre.length
    · left; exact ⟨hlt, by rw [← getold k hlt]; exact hk⟩
    · right
      have hle : k < (pre ++ [(f, e)]).length := by
        by_contra hc
        rw [List.getElem?_eq_none (by omega)] at hk; cases hk
      simp at hle
      have : k = pre.length := by omega
      subst this
      rw [getlast] at hk
      simp at hk
      exact ⟨rfl, hk.1.symm, hk.2⟩
  by_cases hb : inBand fmin fmax f = true
  · simp only [hb, if_true]
    cases e with
    | none =>
      -- nothing new
      cases best with
      | none =>
        intro q hq hqb
        rcases List.mem_append.1 hq with h1 | h1
        · exact h q h1 hqb
        · simp at h1; rw [h1]
      | some jb =>
        obtain ⟨j, b⟩ := jb
        obtain ⟨⟨g, hg, hgb⟩, hall⟩ := h
        have hj : j < pre.length := by
          by_contra hc; rw [List.getElem?_eq_none (by omega)] at hg; cases hg
        refine ⟨⟨g, by rw [getold j hj]; exact hg, hgb⟩, ?_⟩
        intro k g' u hk hkb
        rcases cases_k k g' u hk with ⟨_, h1⟩ | ⟨_, _, h1⟩
        · exact hall k g' u h1 hkb
        · cases h1
    | some v =>
      cases best with
      | none =>
        refine ⟨⟨f, getlast, hb⟩, ?_⟩
        intro k g u hk hkb
        rcases cases_k k g u hk with ⟨hlt, h1⟩ | ⟨hkeq, _, h1⟩
        · have := h (g, some u) (List.mem_of_getElem? h1) hkb
          cases this
        · cases h1; subst hkeq
          exact ⟨le_refl _, fun hh => absurd hh (lt_irrefl _)⟩
      | some jb =>
        obtain ⟨j, b⟩ := jb
        obtain ⟨⟨g, hg, hgb⟩, hall⟩ := h
        have hj : j < pre.length := by
          by_contra hc; rw [List.getElem?_eq_none (by omega)] at hg; cases hg
        by_cases hlt : b < v
        · simp only [hlt, if_true]
          refine ⟨⟨f, getlast, hb⟩, ?_⟩
          intro k g' u hk hkb
          rcases cases_k k g' u hk with ⟨hklt, h1⟩ | ⟨hkeq, _, h1⟩
          · have := (hall k g' u h1 hkb).1
            exact ⟨le_of_lt (lt_of_le_of_lt this hlt), fun _ => lt_of_le_of_lt this hlt⟩
          · cases h1; subst hkeq
            exact ⟨le_refl _, fun hh => absurd hh (lt_irrefl _)⟩
        · simp only [hlt, if_false]
          refine ⟨⟨g, by rw [getold j hj]; exact hg, hgb⟩, ?_⟩
          intro k g' u hk hkb
          rcases cases_k k g' u hk with ⟨hklt, h1⟩ | ⟨hkeq, _, h1⟩
          · exact hall k g' u h1 hkb
          · cases h1; subst hkeq
            exact ⟨not_lt.1 hlt, fun hh => absurd hh (by omega)⟩
  · have hb' : inBand fmin fmax f = false := by cases h' : inBand fmin fmax f <;> simp_all
    simp only [hb', Bool.false_eq_true, if_false]
    cases best with
    | none =>
      intro q hq hqb
      rcases List.mem_append.1 hq with h1 | h1
      · exact h q h1 hqb
      · simp at h1; rw [h1] at hqb; simp [hb'] at hqb
    | some jb =>
      obtain ⟨j, b⟩ := jb
      obtain ⟨⟨g, hg, hgb⟩, hall⟩ := h
      have hj : j < pre.length := by
        by_contra hc; rw [List.getElem?_eq_none (by omega)] at hg; cases hg
      refine ⟨⟨g, by rw [getold j hj]; exact hg, hgb⟩, ?_⟩
      intro k g' u hk hkb
      rcases cases_k k g' u hk with ⟨_, h1⟩ | ⟨_, hgf, _⟩
      · exact hall k g' u h1 hkb
      · subst hgf; rw [hb'] at hkb; cases hkb

theorem peakIndexAux_spec (fmin : α) (fmax : Option α) (l pre : List (α × Option α))
    (best : Option (ℕ × α)) (h : IsBest fmin fmax pre best) :
    IsBest fmin fmax (pre ++ l) (peakIndexAux fmin fmax l pre.length best) := by
  induction l generalizing pre best with
  | nil => simpa [peakIndexAux] using h
  | cons q l ih =>
    obtain ⟨f, e⟩ := q
    rw [peakIndexAux_cons]
    have hs := isBest_step fmin fmax pre f e best h
    have := ih (pre ++ [(f, e)]) _ hs
    simpa [List.append_assoc] using this

end Osu.Spec
