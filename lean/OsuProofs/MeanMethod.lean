import OsuProofs.RealTransc
import OsuModel.WindEstimate
import Mathlib.Tactic.Ring
import Mathlib.Tactic.Linarith
import Mathlib.Tactic.Positivity
import Mathlib.Tactic.FieldSimp

/-! The minimum-variance window of the "mean" method of `equilibrium_range_values` (C12). -/
namespace Osu.Wind
open Osu.Spec

variable {α : Type} [Field α] [LinearOrder α] [IsStrictOrderedRing α]

/-- `argmaxAux` returns an index together with the value found there -/
theorem argmaxAux_index (l : List α) (i : ℕ) (best : Option (ℕ × α)) (r : ℕ × α)
    (h : argmaxAux l i best = some r) :
    (best = some r) ∨ (i ≤ r.1 ∧ l[r.1 - i]? = some r.2) := by
  induction l generalizing i best with
  | nil => simp only [argmaxAux] at h; exact Or.inl h
  | cons v l ih =>
    simp only [argmaxAux] at h
    rcases ih (i + 1) _ h with hb | ⟨hle, hget⟩
    · cases best with
      | none =>
        simp only [Option.some.injEq] at hb
        subst hb
        exact Or.inr ⟨le_refl _, by simp⟩
      | some jb =>
        obtain ⟨j, b⟩ := jb
        simp only at hb
        split at hb
        · simp only [Option.some.injEq] at hb
          subst hb
          exact Or.inr ⟨le_refl _, by simp⟩
        · exact Or.inl hb
    · refine Or.inr ⟨by omega, ?_⟩
      have : r.1 - i = (r.1 - (i + 1)) + 1 := by omega
      rw [this, List.getElem?_cons_succ]
      exact hget

/-- running-maximum facts (value side), restated here to keep this file self-contained -/
theorem argmaxAux_max (l : List α) (i : ℕ) (best : Option (ℕ × α)) (r : ℕ × α)
    (h : argmaxAux l i best = some r) : (∀ x ∈ l, x ≤ r.2) ∧ (∀ b, best = some b → b.2 ≤ r.2) := by
  induction l generalizing i best with
  | nil =>
    simp only [argmaxAux] at h
    exact ⟨by simp, fun b hb => by rw [h] at hb; cases hb; exact le_refl _⟩
  | cons v l ih =>
    simp only [argmaxAux] at h
    obtain ⟨h1, h2⟩ := ih (i + 1) _ h
    cases best with
    | none =>
      have hv : v ≤ r.2 := h2 (i, v) rfl
      refine ⟨?_, by simp⟩
      intro x hx
      rcases List.mem_cons.1 hx with rfl | hx
      · exact hv
      · exact h1 x hx
    | some jb =>
      obtain ⟨j, b⟩ := jb
      simp only at h2
      by_cases hlt : b < v
      · simp only [hlt, if_true] at h2
        have hv : v ≤ r.2 := h2 (i, v) rfl
        refine ⟨?_, ?_⟩
        · intro x hx
          rcases List.mem_cons.1 hx with rfl | hx
          · exact hv
          · exact h1 x hx
        · intro b' hb'; cases hb'; exact le_trans hlt.le hv
      · simp only [hlt, if_false] at h2
        have hb : b ≤ r.2 := h2 (j, b) rfl
        refine ⟨?_, ?_⟩
        · intro x hx
          rcases List.mem_cons.1 hx with rfl | hx
          · exact le_trans (not_lt.1 hlt) hb
          · exact h1 x hx
        · intro b' hb'; cases hb'; exact hb

/-- `argminIdx` points at a smallest element -/
theorem argminIdx_spec (l : List α) (hl : l ≠ []) :
    ∃ v, l[argminIdx l]? = some v ∧ ∀ x ∈ l, v ≤ x := by
  simp only [argminIdx]
  cases hr : argmaxAux (l.map fun v => -v) 0 none with
  | none =>
    exfalso
    cases l with
    | nil => exact hl rfl
    | cons a l =>
      simp only [List.map_cons, argmaxAux] at hr
      -- the running best is `some` from the first element on
      have : ∀ (m : List α) (i : ℕ) (b : ℕ × α), argmaxAux m i (some b) ≠ none := by
        intro m
        induction m with
        | nil => intro i b; simp [argmaxAux]
        | cons c m ih => intro i b; simp only [argmaxAux]; split <;> exact ih _ _
      exact this _ _ _ hr
  | some r =>
    rcases argmaxAux_index _ 0 none r hr with hb | ⟨_, hget⟩
    · cases hb
    · simp only [Nat.sub_zero, List.getElem?_map, Option.map_eq_some_iff] at hget
      obtain ⟨v, hv, hneg⟩ := hget
      refine ⟨v, hv, ?_⟩
      intro x hx
      have := (argmaxAux_max _ 0 none r hr).1 (-x) (List.mem_map.2 ⟨x, hx, rfl⟩)
      rw [← hneg] at this
      linarith

/-- relative variance of a window, as the code computes it -/
def relVar (w : List α) : α :=
  lmean (w.map fun v => (v - lmean w) * (v - lmean w)) / (lmean w * lmean w)

theorem lsum_sq_nonneg (w : List α) (m : α) : 0 ≤ lsum (w.map fun v => (v - m) * (v - m)) := by
  induction w with
  | nil => simp [lsum]
  | cons a w ih => simp only [List.map_cons, lsum]; exact add_nonneg (mul_self_nonneg _) ih

theorem relVar_nonneg (w : List α) : 0 ≤ relVar w := by
  simp only [relVar, lmean]
  apply div_nonneg
  · apply div_nonneg (lsum_sq_nonneg w _)
    exact Nat.cast_nonneg _
  · exact mul_self_nonneg _

theorem lsum_replicate (n : ℕ) (c : α) : lsum (List.replicate n c) = n * c := by
  induction n with
  | zero => simp [lsum]
  | succ n ih => simp only [List.replicate_succ, lsum, ih]; push_cast; ring

/-- a constant window has zero relative variance -/
theorem relVar_replicate (n : ℕ) (hn : 0 < n) (c : α) : relVar (List.replicate n c) = 0 := by
  have hn' : ((n : ℕ) : α) ≠ 0 := Nat.cast_ne_zero.2 hn.ne'
  have hm : lmean (List.replicate n c) = c := by
    simp only [lmean, lsum_replicate, List.length_replicate]; field_simp
  have hz : (List.replicate n c).map (fun v => (v - lmean (List.replicate n c)) * (v - lmean (List.replicate n c)))
      = List.replicate n 0 := by
    rw [hm, List.map_replicate]; simp
  simp only [relVar]
  rw [hz]
  simp [lmean, lsum_replicate]

theorem lsum_sq_eq_zero (w : List α) (m : α) (h : lsum (w.map fun v => (v - m) * (v - m)) = 0) :
    ∀ x ∈ w, x = m := by
  induction w with
  | nil => intro x hx; simp at hx
  | cons a w ih =>
    simp only [List.map_cons, lsum] at h
    have h1 := mul_self_nonneg (a - m)
    have h2 := lsum_sq_nonneg w m
    have ha : (a - m) * (a - m) = 0 := by linarith
    have hw : lsum (w.map fun v => (v - m) * (v - m)) = 0 := by linarith
    intro x hx
    rcases List.mem_cons.1 hx with rfl | hx
    · have := mul_self_eq_zero.1 ha; linarith
    · exact ih hw x hx

/-- a window with zero relative variance and non-zero mean is constant, equal to its mean -/
theorem relVar_zero_const (w : List α) (hw : w ≠ []) (hm : lmean w ≠ 0) (h : relVar w = 0) :
    ∀ x ∈ w, x = lmean w := by
  simp only [relVar] at h
  have hden : lmean w * lmean w ≠ 0 := mul_ne_zero hm hm
  have hnum : lmean (w.map fun v => (v - lmean w) * (v - lmean w)) = 0 := by
    rcases div_eq_zero_iff.1 h with h0 | h0
    · exact h0
    · exact absurd h0 hden
  have hlen : ((w.length : ℕ) : α) ≠ 0 := by
    have : w.length ≠ 0 := by simpa [List.length_eq_zero_iff] using hw
    exact Nat.cast_ne_zero.2 this
  simp only [lmean, List.length_map] at hnum
  have := (div_eq_zero_iff.1 hnum).resolve_right hlen
  exact lsum_sq_eq_zero w _ this

/-- the candidate window starting at `i` -/
def candidate (scaled : List α) (nb nf i : ℕ) : List α := (scaled.drop i).take (min (i + nb) nf - i)

/-- the relative variances the code scans (windows starting at `iMin .. iMax-1`) -/
def windowVariances (scaled : List α) (nb nf iMin iMax : ℕ) : List α :=
  (List.range (iMax - iMin)).map fun c => relVar (candidate scaled nb nf (iMin + c))

/-- the `nb`-bin average starting at `iStar` (start index clipped as in the code) -/
def pickAt (l : List α) (nb nf iStar : ℕ) : α :=
  lsum ((List.range nb).map fun ii => l.getD (min (iStar + ii) (nf - 1 - nb)) 0) * ((1 : α) / ((nb : ℕ) : α))

/-- if one of the scanned windows has zero relative variance (e.g. it lies in a range where
`E f^p` is constant), the window the code selects has zero relative variance too -/
theorem selected_variance_zero (scaled : List α) (nb nf iMin iMax c0 : ℕ) (hc0 : c0 < iMax - iMin)
    (hz : relVar (candidate scaled nb nf (iMin + c0)) = 0) :
    relVar (candidate scaled nb nf (iMin + argminIdx (windowVariances scaled nb nf iMin iMax))) = 0 ∧
    argminIdx (windowVariances scaled nb nf iMin iMax) < iMax - iMin := by
  have hne : windowVariances scaled nb nf iMin iMax ≠ [] := by
    simp only [windowVariances, ne_eq, List.map_eq_nil_iff, List.range_eq_nil]; omega
  obtain ⟨v, hv, hmin⟩ := argminIdx_spec _ hne
  have hlt : argminIdx (windowVariances scaled nb nf iMin iMax) < iMax - iMin := by
    have := (List.getElem?_eq_some_iff.1 hv).1
    simpa [windowVariances] using this
  have hv' : v = relVar (candidate scaled nb nf (iMin + argminIdx (windowVariances scaled nb nf iMin iMax))) := by
    have hlt' : argminIdx (windowVariances scaled nb nf iMin iMax) < (List.range (iMax - iMin)).length := by simpa using hlt
    have hr : (List.range (iMax - iMin))[argminIdx (windowVariances scaled nb nf iMin iMax)]? =
        some (argminIdx (windowVariances scaled nb nf iMin iMax)) := by
      rw [List.getElem?_eq_getElem hlt']; simp
    have hv2 := hv
    unfold windowVariances at hv2
    rw [List.getElem?_map] at hv2
    unfold windowVariances at hr
    rw [hr] at hv2
    simp only [Option.map_some, Option.some.injEq] at hv2
    unfold windowVariances
    exact hv2.symm
  have hle : v ≤ 0 := by
    have := hmin (relVar (candidate scaled nb nf (iMin + c0)))
      (by simp only [windowVariances, List.mem_map, List.mem_range]; exact ⟨c0, hc0, rfl⟩)
    rwa [hz] at this
  have hge : 0 ≤ v := by rw [hv']; exact relVar_nonneg _
  exact ⟨by rw [← hv']; exact le_antisymm hle hge, hlt⟩

/-- the average over an unclipped window whose entries all equal `m` is `m` -/
theorem pickAt_const (l : List α) (nb nf iStar : ℕ) (m : α) (hnb : 0 < nb)
    (hnoclip : iStar + nb ≤ nf - nb) (hlen : nf ≤ l.length)
    (hconst : ∀ x ∈ (l.drop iStar).take nb, x = m) : pickAt l nb nf iStar = m := by
  have hnb' : ((nb : ℕ) : α) ≠ 0 := Nat.cast_ne_zero.2 hnb.ne'
  have hget : ∀ ii ∈ List.range nb, l.getD (min (iStar + ii) (nf - 1 - nb)) 0 = m := by
    intro ii hii
    have hii' := List.mem_range.1 hii
    have hmin : min (iStar + ii) (nf - 1 - nb) = iStar + ii := by
      apply Nat.min_eq_left; omega
    rw [hmin]
    have hlt : iStar + ii < l.length := by omega
    have hx : l.getD (iStar + ii) 0 ∈ (l.drop iStar).take nb := by
      rw [List.getD_eq_getElem?_getD, List.getElem?_eq_getElem hlt]
      simp only [Option.getD_some]
      rw [List.mem_take_iff_getElem]
      refine ⟨ii, by simp; omega, ?_⟩
      simp
    exact hconst _ hx
  simp only [pickAt]
  rw [List.map_congr_left hget]
  have : lsum ((List.range nb).map fun _ => m) = nb * m := by
    have : (List.range nb).map (fun _ => m) = List.replicate nb m := by
      apply List.ext_getElem <;> simp
    rw [this, lsum_replicate]
  rw [this]
  field_simp

end Osu.Wind
