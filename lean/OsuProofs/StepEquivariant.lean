import OsuProofs.JacobianRotation
import Mathlib.LinearAlgebra.Matrix.NonsingularInverse

/-! An exact linear solve of the Newton step is rotation-equivariant (C06). -/
namespace Osu.Est

open Real Finset Matrix

/-- `R` is orthogonal: `Σ_m R_ma R_mb = δ_ab` -/
theorem Rmat_orth_col (φ : ℝ) (a b : ℕ) (ha : a < 4) (hb : b < 4) :
    ∑ m ∈ range 4, Rmat φ m a * Rmat φ m b = if a = b then 1 else 0 := by
  have h1 := Real.cos_sq_add_sin_sq φ
  have h2 := Real.cos_sq_add_sin_sq (2 * φ)
  simp only [Finset.sum_range_succ, Finset.sum_range_zero, zero_add]
  interval_cases a <;> interval_cases b <;> simp [Rmat] <;> nlinarith [h1, h2]

/-- components of `rotLam φ v` are `R v` -/
theorem rotLam_getD (φ : ℝ) (v : List ℝ) (m : ℕ) (hm : m < 4) :
    (rotLam φ v).getD m 0 = ∑ a ∈ range 4, Rmat φ m a * v.getD a 0 := by
  simp only [Finset.sum_range_succ, Finset.sum_range_zero, zero_add]
  interval_cases m <;> simp [rotLam, Rmat] <;> ring

/-- two 4-lists with equal components are equal -/
theorem list4_ext (x y : List ℝ) (hx : x.length = 4) (hy : y.length = 4) (h : ∀ m < 4, x.getD m 0 = y.getD m 0) : x = y := by
  match x, hx, y, hy with
  | [a, b, c, d], _, [a', b', c', d'], _ =>
    have h0 := h 0 (by omega); have h1 := h 1 (by omega); have h2 := h 2 (by omega); have h3 := h 3 (by omega)
    simp at h0 h1 h2 h3
    rw [h0, h1, h2, h3]

/-- lists as vectors / matrices over `Fin 4` -/
def toVec (x : List ℝ) : Fin 4 → ℝ := fun i => x.getD i 0
def toMat (J : List (List ℝ)) : Matrix (Fin 4) (Fin 4) ℝ := fun i j => (J.getD i []).getD j 0
noncomputable def Rm (φ : ℝ) : Matrix (Fin 4) (Fin 4) ℝ := fun i j => Rmat φ i j

theorem sum_range4_eq (f : ℕ → ℝ) : ∑ a ∈ range 4, f a = ∑ i : Fin 4, f i := by
  rw [Fin.sum_univ_four]
  simp [Finset.sum_range_succ]

theorem Rm_orth (φ : ℝ) : (Rm φ)ᵀ * Rm φ = 1 := by
  ext a b
  simp only [Matrix.mul_apply, Matrix.transpose_apply, Rm, Matrix.one_apply]
  rw [← sum_range4_eq (fun m => Rmat φ m a * Rmat φ m b), Rmat_orth_col φ a b a.2 b.2]
  simp [Fin.ext_iff]

theorem Rmat_orth_row (φ : ℝ) (m n : ℕ) (hm : m < 4) (hn : n < 4) :
    ∑ a ∈ range 4, Rmat φ m a * Rmat φ n a = if m = n then 1 else 0 := by
  have h1 := Real.cos_sq_add_sin_sq φ
  have h2 := Real.cos_sq_add_sin_sq (2 * φ)
  simp only [Finset.sum_range_succ, Finset.sum_range_zero, zero_add]
  interval_cases m <;> interval_cases n <;> simp [Rmat] <;> nlinarith [h1, h2]

theorem Rm_orth' (φ : ℝ) : Rm φ * (Rm φ)ᵀ = 1 := by
  ext a b
  simp only [Matrix.mul_apply, Matrix.transpose_apply, Rm, Matrix.one_apply]
  rw [← sum_range4_eq (fun m => Rmat φ a m * Rmat φ b m), Rmat_orth_row φ a b a.2 b.2]
  simp [Fin.ext_iff]

theorem toVec_rotLam (φ : ℝ) (v : List ℝ) : toVec (rotLam φ v) = Rm φ *ᵥ toVec v := by
  funext i
  simp only [toVec, Matrix.mulVec, dotProduct, Rm]
  rw [rotLam_getD φ v i i.2, sum_range4_eq]

variable {N : ℕ} [NeZero N]

/-- an exact, well-defined linear solve: for every multiplier vector the Jacobian is nonsingular
and `solve` returns the 4-vector solving `J x = g` -/
structure ExactSolve (solve : List (List ℝ) → List ℝ → List ℝ) (θ0 Δ : ℝ) : Prop where
  length : ∀ J g, (solve J g).length = 4
  solves : ∀ lam g : List ℝ,
    toMat (jacobian lam (gridDelta N Δ) (gridT (N := N) θ0)) *ᵥ toVec (solve (jacobian lam (gridDelta N Δ) (gridT (N := N) θ0)) g) = toVec g
  nonsingular : ∀ (lam : List ℝ) (v : Fin 4 → ℝ), toMat (jacobian lam (gridDelta N Δ) (gridT (N := N) θ0)) *ᵥ v = 0 → v = 0

theorem toMat_jacobian_rot (θ0 Δ : ℝ) (hΔ : 0 < Δ) (k : Fin N) (lam : List ℝ) :
    toMat (jacobian (rotLam (phiR k) lam) (gridDelta N Δ) (gridT (N := N) θ0))
      = Rm (phiR k) * toMat (jacobian lam (gridDelta N Δ) (gridT (N := N) θ0)) * (Rm (phiR k))ᵀ := by
  have hN : 0 < N := Nat.pos_of_ne_zero (NeZero.ne N)
  have hδ : ∀ d ∈ gridDelta N Δ, 0 < d := by
    intro d hd; simp only [gridDelta, List.mem_ofFn] at hd; obtain ⟨_, rfl⟩ := hd; exact hΔ
  have hT : gridT (N := N) θ0 ≠ [] := by
    intro h; have := congrArg List.length h; simp [gridT] at this; omega
  have hd : gridDelta N Δ ≠ [] := by
    intro h; have := congrArg List.length h; simp [gridDelta] at this; omega
  have hcov : ∀ (l : List ℝ) (a b : ℕ), a < 4 → b < 4 →
      ((jacobian l (gridDelta N Δ) (gridT (N := N) θ0)).getD a []).getD b 0 = covEntry l ((gridT (N := N) θ0).zip (gridDelta N Δ)) a b := by
    intro l a b ha hb
    rw [jacobian_getD _ _ _ _ _ ha hb]
    split
    · exact jacEntry_closed _ _ _ _ _ hb hδ hT hd
    · rw [jacEntry_closed _ _ _ _ _ ha hδ hT hd, covEntry_symm]
  ext m n
  simp only [toMat, Matrix.mul_apply, Matrix.transpose_apply, Rm]
  rw [hcov _ m n m.2 n.2, covEntry_rot θ0 Δ k lam m n m.2 n.2]
  have hc : ∀ a b : Fin 4, ((jacobian lam (gridDelta N Δ) (gridT (N := N) θ0)).getD a []).getD b 0
      = covEntry lam ((gridT (N := N) θ0).zip (gridDelta N Δ)) a b := fun a b => hcov lam a b a.2 b.2
  simp only [hc, Fin.sum_univ_four, Finset.sum_range_succ, Finset.sum_range_zero, zero_add]
  simp only [Fin.val_zero, Fin.val_one, Fin.val_two, show ((3 : Fin 4) : ℕ) = 3 from rfl]
  ring

/-- **an exact Newton step is rotation-equivariant**: if `solve` returns, for every multiplier
vector, the solution of `J x = g` (the Jacobians being nonsingular), then
`solve J(Rλ) (R g) = R (solve J(λ) g)` -/
theorem stepEquivariant_of_exact (solve : List (List ℝ) → List ℝ → List ℝ) (θ0 Δ : ℝ) (hΔ : 0 < Δ) (k : Fin N)
    (hE : ExactSolve (N := N) solve θ0 Δ) : StepEquivariant solve θ0 Δ k := by
  refine ⟨?_, hE.length⟩
  intro lam g _ _
  set φ := phiR k with hφ
  set J := toMat (jacobian lam (gridDelta N Δ) (gridT (N := N) θ0)) with hJ
  set x' := toVec (solve (jacobian (rotLam φ lam) (gridDelta N Δ) (gridT (N := N) θ0)) (rotLam φ g)) with hx'
  set y := toVec (solve (jacobian lam (gridDelta N Δ) (gridT (N := N) θ0)) g) with hy
  -- J' x' = R g with J' = R J Rᵀ
  have h1 : (Rm φ * J * (Rm φ)ᵀ) *ᵥ x' = Rm φ *ᵥ toVec g := by
    rw [← toMat_jacobian_rot θ0 Δ hΔ k lam, ← toVec_rotLam]
    exact hE.solves (rotLam φ lam) (rotLam φ g)
  -- multiply by Rᵀ
  have h2 : J *ᵥ ((Rm φ)ᵀ *ᵥ x') = toVec g := by
    have := congrArg (fun v => (Rm φ)ᵀ *ᵥ v) h1
    simp only [Matrix.mulVec_mulVec] at this
    rw [← Matrix.mul_assoc, ← Matrix.mul_assoc, Rm_orth, Matrix.one_mul, Matrix.one_mulVec] at this
    rw [← Matrix.mulVec_mulVec] at this
    exact this
  have h3 : J *ᵥ y = toVec g := hE.solves lam g
  -- nonsingular: Rᵀ x' = y
  have h4 : (Rm φ)ᵀ *ᵥ x' = y := by
    have hz : J *ᵥ ((Rm φ)ᵀ *ᵥ x' - y) = 0 := by rw [Matrix.mulVec_sub, h2, h3, sub_self]
    have := hE.nonsingular lam _ hz
    exact sub_eq_zero.1 this
  -- hence x' = R y
  have h5 : x' = Rm φ *ᵥ y := by
    rw [← h4, Matrix.mulVec_mulVec, Rm_orth', Matrix.one_mulVec]
  -- back to lists
  apply list4_ext _ _ (hE.length _ _) (rotLam_length _ _)
  intro m hm
  have := congrFun h5 ⟨m, hm⟩
  rw [← toVec_rotLam] at this
  simpa [toVec, hx'] using this

/-- **MEM2 / Newton with any exact linear solver rotates with its input** -/
theorem mem2Newton_rot_exact (solve : List (List ℝ) → List ℝ → List ℝ) (atol : ℝ) (maxIter lsDepth : ℕ) (θ0 Δ : ℝ) (hΔ : 0 < Δ)
    (k : Fin N) (hE : ExactSolve (N := N) solve θ0 Δ) (a1 b1 a2 b2 : ℝ) :
    ∃ D : Fin N → ℝ,
      mem2Newton solve atol maxIter lsDepth [a1, b1, a2, b2] (gridDelta N Δ) (gridT (N := N) θ0) = List.ofFn D ∧
      mem2Newton solve atol maxIter lsDepth (rotLam (phiR k) [a1, b1, a2, b2]) (gridDelta N Δ) (gridT (N := N) θ0)
        = List.ofFn (Osu.Rot.rotE k D) :=
  mem2Newton_rot solve atol maxIter lsDepth θ0 Δ k (stepEquivariant_of_exact solve θ0 Δ hΔ k hE) a1 b1 a2 b2

end Osu.Est
