import Mathlib.Analysis.SpecialFunctions.Trigonometric.Basic
import Mathlib.Algebra.Field.GeomSum
import Mathlib.Analysis.SpecialFunctions.Complex.Log
import Mathlib.Tactic.Ring
import Mathlib.Tactic.Linarith
import Mathlib.Tactic.FieldSimp

/-! Discrete orthogonality of sines and cosines on `n` equally spaced samples, and the Parseval
identity for the real inverse DFT used by `surface_timeseries` (C16). -/
namespace Osu.Parseval

open Real Finset

/-- `Σ_{t<n} exp(2πi j t / n) = 0` when `n ∤ j` -/
theorem sum_exp_eq_zero (n : ℕ) (hn : 0 < n) (j : ℤ) (hj : ¬ (n : ℤ) ∣ j) :
    ∑ t ∈ range n, Complex.exp (2 * π * Complex.I * j / n) ^ t = 0 := by
  have hn' : (n : ℂ) ≠ 0 := Nat.cast_ne_zero.2 hn.ne'
  have hr1 : Complex.exp (2 * π * Complex.I * j / n) ≠ 1 := by
    intro h
    rw [Complex.exp_eq_one_iff] at h
    obtain ⟨m, hm⟩ := h
    have h2 : (j : ℂ) = m * n := by
      have hpi : (2 * (π : ℂ) * Complex.I) ≠ 0 := by
        simp [Real.pi_ne_zero, Complex.I_ne_zero]
      field_simp at hm
      have : (2 * (π : ℂ) * Complex.I) * j = (2 * (π : ℂ) * Complex.I) * (m * n) := by
        rw [show 2 * (π : ℂ) * Complex.I * j = 2 * ↑π * Complex.I * ↑j by ring, hm]; ring
      exact mul_left_cancel₀ hpi this
    apply hj
    refine ⟨m, ?_⟩
    have : ((j : ℤ) : ℂ) = ((m * n : ℤ) : ℂ) := by push_cast; exact h2
    have := Int.cast_injective this
    rw [this]; ring
  have hrn : Complex.exp (2 * π * Complex.I * j / n) ^ n = 1 := by
    rw [← Complex.exp_nat_mul]
    rw [show (n : ℂ) * (2 * π * Complex.I * j / n) = j * (2 * π * Complex.I) by field_simp]
    exact Complex.exp_int_mul_two_pi_mul_I j
  rw [geom_sum_eq hr1, hrn, sub_self, zero_div]

theorem exp_pow_re (n : ℕ) (j : ℤ) (t : ℕ) :
    (Complex.exp (2 * π * Complex.I * j / n) ^ t).re = Real.cos (2 * π * j * t / n) ∧
    (Complex.exp (2 * π * Complex.I * j / n) ^ t).im = Real.sin (2 * π * j * t / n) := by
  rw [← Complex.exp_nat_mul]
  have : (t : ℂ) * (2 * π * Complex.I * j / n) = ((2 * π * j * t / n : ℝ) : ℂ) * Complex.I := by
    push_cast; ring
  rw [this]
  exact ⟨Complex.exp_ofReal_mul_I_re _, Complex.exp_ofReal_mul_I_im _⟩

/-- cosine and sine sums over a full period vanish for `n ∤ j` -/
theorem sum_cos_sin_eq_zero (n : ℕ) (hn : 0 < n) (j : ℤ) (hj : ¬ (n : ℤ) ∣ j) :
    ∑ t ∈ range n, Real.cos (2 * π * j * t / n) = 0 ∧ ∑ t ∈ range n, Real.sin (2 * π * j * t / n) = 0 := by
  have h := sum_exp_eq_zero n hn j hj
  have hre := congrArg Complex.re h
  have him := congrArg Complex.im h
  simp only [Complex.re_sum, Complex.im_sum, Complex.zero_re, Complex.zero_im] at hre him
  constructor
  · rw [← hre]; exact Finset.sum_congr rfl fun t _ => (exp_pow_re n j t).1.symm
  · rw [← him]; exact Finset.sum_congr rfl fun t _ => (exp_pow_re n j t).2.symm

theorem not_dvd_of_small (n : ℕ) (j : ℤ) (h0 : j ≠ 0) (h1 : -(n : ℤ) < j) (h2 : j < n) : ¬ (n : ℤ) ∣ j := by
  intro ⟨m, hm⟩
  rcases lt_trichotomy m 0 with h | h | h
  · have : j ≤ -(n : ℤ) := by
      have : (n : ℤ) * m ≤ (n : ℤ) * (-1) := by
        apply mul_le_mul_of_nonneg_left (by omega) (by omega)
      linarith
    omega
  · subst h; simp at hm; exact h0 hm
  · have : (n : ℤ) ≤ j := by
      have : (n : ℤ) * 1 ≤ (n : ℤ) * m := mul_le_mul_of_nonneg_left (by omega) (by omega)
      linarith
    omega

/-- one harmonic `p cos(2πkt/n) − q sin(2πkt/n)` -/
noncomputable def harm (n : ℕ) (p q : ℝ) (k t : ℕ) : ℝ :=
  p * Real.cos (2 * π * k * t / n) - q * Real.sin (2 * π * k * t / n)

/-- a single harmonic `0 < k < n` has zero mean -/
theorem sum_harm (n : ℕ) (p q : ℝ) (k : ℕ) (hk0 : 0 < k) (hk : k < n) :
    ∑ t ∈ range n, harm n p q k t = 0 := by
  have hn : 0 < n := by omega
  have h := sum_cos_sin_eq_zero n hn (k : ℤ) (not_dvd_of_small n k (by omega) (by omega) (by omega))
  simp only [harm, Finset.sum_sub_distrib, ← Finset.mul_sum]
  push_cast at h
  rw [h.1, h.2]; ring

/-- orthogonality of two harmonics with `0 < k, l` and `k + l < n` -/
theorem sum_harm_mul (n : ℕ) (p q p' q' : ℝ) (k l : ℕ) (hk0 : 0 < k) (hl0 : 0 < l) (hkl : k + l < n) :
    ∑ t ∈ range n, harm n p q k t * harm n p' q' l t =
      if k = l then (n : ℝ) / 2 * (p * p' + q * q') else 0 := by
  have hn : 0 < n := by omega
  have hsum := sum_cos_sin_eq_zero n hn ((k : ℤ) + l) (not_dvd_of_small n _ (by omega) (by omega) (by omega))
  -- product to sum, term by term
  have hterm : ∀ t : ℕ, harm n p q k t * harm n p' q' l t =
      (p * p' + q * q') / 2 * Real.cos (2 * π * ((k : ℤ) - l : ℤ) * t / n)
      + (p * p' - q * q') / 2 * Real.cos (2 * π * ((k : ℤ) + l : ℤ) * t / n)
      - (p * q' + q * p') / 2 * Real.sin (2 * π * ((k : ℤ) + l : ℤ) * t / n)
      + (p * q' - q * p') / 2 * Real.sin (2 * π * ((k : ℤ) - l : ℤ) * t / n) := by
    intro t
    simp only [harm]
    have hA : 2 * π * ((k : ℤ) - l : ℤ) * t / n = 2 * π * k * t / n - 2 * π * l * t / n := by push_cast; ring
    have hB : 2 * π * ((k : ℤ) + l : ℤ) * t / n = 2 * π * k * t / n + 2 * π * l * t / n := by push_cast; ring
    rw [hA, hB, Real.cos_sub, Real.cos_add, Real.sin_sub, Real.sin_add]
    ring
  simp only [hterm, Finset.sum_add_distrib, Finset.sum_sub_distrib, ← Finset.mul_sum]
  rw [hsum.1, hsum.2]
  by_cases hkl' : k = l
  · subst hkl'
    simp only [sub_self, Int.cast_zero, mul_zero, zero_mul, zero_div, Real.cos_zero, Real.sin_zero, Finset.sum_const,
      Finset.card_range, nsmul_eq_mul, mul_one, if_true]
    ring
  · have hd := sum_cos_sin_eq_zero n hn ((k : ℤ) - l) (not_dvd_of_small n _ (by omega) (by omega) (by omega))
    rw [hd.1, hd.2]
    simp [hkl']

/-- the real inverse DFT of `surface_timeseries` (times `n`): mean plus twice the harmonics `1..m` -/
noncomputable def signal (n m : ℕ) (a0 : ℝ) (p q : ℕ → ℝ) (t : ℕ) : ℝ :=
  a0 + 2 * ∑ k ∈ range m, harm n (p (k + 1)) (q (k + 1)) (k + 1) t

/-- the sample mean of the signal is `a0` (`2 m < n`: all harmonics below the Nyquist index) -/
theorem signal_mean (n m : ℕ) (a0 : ℝ) (p q : ℕ → ℝ) (hm : 2 * m < n) :
    (∑ t ∈ range n, signal n m a0 p q t) / n = a0 := by
  have hn0 : 0 < n := by omega
  have hn : (n : ℝ) ≠ 0 := by exact_mod_cast hn0.ne'
  simp only [signal, Finset.sum_add_distrib, Finset.sum_const, Finset.card_range, nsmul_eq_mul, ← Finset.mul_sum]
  rw [Finset.sum_comm]
  have : ∑ k ∈ range m, ∑ t ∈ range n, harm n (p (k + 1)) (q (k + 1)) (k + 1) t = 0 := by
    apply Finset.sum_eq_zero
    intro k hk
    have := Finset.mem_range.1 hk
    exact sum_harm n _ _ (k + 1) (by omega) (by omega)
  rw [this]
  field_simp
  ring

/-- Parseval: the mean square of the signal is `a0² + 2 Σ (p_k² + q_k²)` -/
theorem signal_mean_square (n m : ℕ) (a0 : ℝ) (p q : ℕ → ℝ) (hm : 2 * m < n) :
    (∑ t ∈ range n, signal n m a0 p q t ^ 2) / n =
      a0 ^ 2 + 2 * ∑ k ∈ range m, (p (k + 1) ^ 2 + q (k + 1) ^ 2) := by
  have hn0 : 0 < n := by omega
  have hn : (n : ℝ) ≠ 0 := by exact_mod_cast hn0.ne'
  have hexp : ∀ t, signal n m a0 p q t ^ 2 = a0 ^ 2
      + 4 * a0 * ∑ k ∈ range m, harm n (p (k + 1)) (q (k + 1)) (k + 1) t
      + 4 * ∑ k ∈ range m, ∑ l ∈ range m,
          harm n (p (k + 1)) (q (k + 1)) (k + 1) t * harm n (p (l + 1)) (q (l + 1)) (l + 1) t := by
    intro t
    simp only [signal]
    rw [← Finset.sum_mul_sum]
    ring
  have h1 : ∑ t ∈ range n, ∑ k ∈ range m, harm n (p (k + 1)) (q (k + 1)) (k + 1) t = 0 := by
    rw [Finset.sum_comm]
    apply Finset.sum_eq_zero
    intro k hk
    have := Finset.mem_range.1 hk
    exact sum_harm n _ _ (k + 1) (by omega) (by omega)
  have h2 : ∑ t ∈ range n, ∑ k ∈ range m, ∑ l ∈ range m,
      harm n (p (k + 1)) (q (k + 1)) (k + 1) t * harm n (p (l + 1)) (q (l + 1)) (l + 1) t
      = (n : ℝ) / 2 * ∑ k ∈ range m, (p (k + 1) ^ 2 + q (k + 1) ^ 2) := by
    rw [Finset.sum_comm]
    rw [Finset.mul_sum]
    apply Finset.sum_congr rfl
    intro k hk
    have hk' := Finset.mem_range.1 hk
    rw [Finset.sum_comm]
    have : ∀ l ∈ range m, ∑ t ∈ range n,
        harm n (p (k + 1)) (q (k + 1)) (k + 1) t * harm n (p (l + 1)) (q (l + 1)) (l + 1) t
        = if k = l then (n : ℝ) / 2 * (p (k + 1) * p (l + 1) + q (k + 1) * q (l + 1)) else 0 := by
      intro l hl
      have hl' := Finset.mem_range.1 hl
      rw [sum_harm_mul n _ _ _ _ (k + 1) (l + 1) (by omega) (by omega) (by omega)]
      simp only [add_left_inj]
    rw [Finset.sum_congr rfl this, Finset.sum_ite_eq (range m) k, if_pos hk]
    ring
  have hsplit : ∑ t ∈ range n, signal n m a0 p q t ^ 2 = (n : ℝ) * a0 ^ 2
      + 4 * a0 * (∑ t ∈ range n, ∑ k ∈ range m, harm n (p (k + 1)) (q (k + 1)) (k + 1) t)
      + 4 * (∑ t ∈ range n, ∑ k ∈ range m, ∑ l ∈ range m,
          harm n (p (k + 1)) (q (k + 1)) (k + 1) t * harm n (p (l + 1)) (q (l + 1)) (l + 1) t) := by
    rw [Finset.sum_congr rfl fun t _ => hexp t, Finset.sum_add_distrib, Finset.sum_add_distrib, ← Finset.mul_sum,
      ← Finset.mul_sum, Finset.sum_const, Finset.card_range, nsmul_eq_mul]
  rw [hsplit, h1, h2]
  field_simp
  ring

/-- hence the sample variance (mean square minus squared mean, `numpy.var`) is the sum of
`2 |a_k|²` over the harmonics — the zero-frequency bin does not contribute -/
theorem signal_variance (n m : ℕ) (a0 : ℝ) (p q : ℕ → ℝ) (hm : 2 * m < n) :
    (∑ t ∈ range n, signal n m a0 p q t ^ 2) / n - ((∑ t ∈ range n, signal n m a0 p q t) / n) ^ 2 =
      2 * ∑ k ∈ range m, (p (k + 1) ^ 2 + q (k + 1) ^ 2) := by
  rw [signal_mean_square n m a0 p q hm, signal_mean n m a0 p q hm]; ring

end Osu.Parseval
