import OsuModel.FileCache

namespace Osu.FC

variable (resOf : Nat → Nat)

/-- Disk-only invariant: holds at *every* point of every execution, including after a crash. -/
structure DiskInv (s : State) : Prop where
  cache_full : ∀ k f, s.disk (.cache k) = some f → ∃ pp, f.content = .full (resOf k) pp
  known : ∀ k f, s.disk (.cache k) = some f → k ∈ s.known
  stamp_lt : ∀ n f, s.disk n = some f → f.stamp < s.clock
  stamp_inj : ∀ n n' f f', s.disk n = some f → s.disk n' = some f' → f.stamp = f'.stamp → n = n'

/-- The only action that can create a cache-pattern file is `commit`; it is legal when the
temporary file it renames is complete and of the right resource. -/
def Legal (s : State) : Act → Prop
  | .commit k => ∀ f, s.disk (.tmp k) = some f → ∃ pp, f.content = .full (resOf k) pp
  | _ => True

theorem upd_same (d : FName → Option FileData) (n v) : upd d n v n = v := by simp [upd]
theorem upd_other (d : FName → Option FileData) (n m v) (h : m ≠ n) : upd d n v m = d m := by
  simp [upd, h]

theorem diskInv_exec {s : State} (a : Act) (h : DiskInv resOf s) (hl : Legal resOf s a) :
    DiskInv resOf (exec s a) := by
  obtain ⟨h1, h2, h3, h4⟩ := h
  cases a with
  | writeTmp k c size =>
    refine ⟨?_, ?_, ?_, ?_⟩
    · intro k' f hf; simp [exec, upd] at hf; exact h1 k' f hf
    · intro k' f hf; simp [exec, upd] at hf; exact h2 k' f hf
    · intro n f hf
      simp only [exec, upd] at hf ⊢
      split at hf
      · cases hf; simp
      · have := h3 n f hf; omega
    · intro n n' f f' hf hf' he
      simp only [exec, upd] at hf hf'
      split at hf <;> split at hf'
      · simp_all
      · cases hf; have := h3 n' f' hf'; simp at he; omega
      · cases hf'; have := h3 n f hf; simp at he; omega
      · exact h4 n n' f f' hf hf' he
  | commit k =>
    simp only [exec]
    cases ht : s.disk (.tmp k) with
    | none => exact ⟨h1, h2, h3, h4⟩
    | some g =>
      simp only
      obtain ⟨pp, hpp⟩ := hl g ht
      refine ⟨?_, ?_, ?_, ?_⟩
      · intro k' f hf
        simp only [upd] at hf
        by_cases hk : k' = k
        · subst hk; simp at hf; subst hf; exact ⟨pp, hpp⟩
        · simp [hk] at hf; exact h1 k' f hf
      · intro k' f hf
        simp only [upd] at hf
        by_cases hk : k' = k
        · subst hk; simp
        · simp [hk] at hf; simp; right; exact h2 k' f hf
      · intro n f hf
        simp only [upd] at hf
        split at hf
        · simp at hf
        · split at hf
          · cases hf; exact h3 _ _ ht
          · exact h3 n f hf
      · intro n n' f f' hf hf' he
        simp only [upd] at hf hf'
        split at hf
        · simp at hf
        · split at hf'
          · simp at hf'
          · split at hf <;> split at hf'
            · simp_all
            · cases hf; have := h4 _ _ _ _ ht hf' he; simp_all
            · cases hf'; have := h4 _ _ _ _ hf ht he; simp_all
            · exact h4 n n' f f' hf hf' he
  | rmTmp k =>
    refine ⟨?_, ?_, ?_, ?_⟩
    · intro k' f hf; simp [exec, upd] at hf; exact h1 k' f hf
    · intro k' f hf; simp [exec, upd] at hf; exact h2 k' f hf
    · intro n f hf
      simp only [exec, upd] at hf ⊢
      split at hf
      · simp at hf
      · exact h3 n f hf
    · intro n n' f f' hf hf' he
      simp only [exec, upd] at hf hf'
      split at hf <;> split at hf' <;> simp_all
      exact h4 n n' f f' hf hf' he
  | rmCache k =>
    refine ⟨?_, ?_, ?_, ?_⟩
    · intro k' f hf
      simp only [exec, upd] at hf
      split at hf
      · simp at hf
      · exact h1 k' f hf
    · intro k' f hf
      simp only [exec, upd] at hf ⊢
      split at hf
      · simp at hf
      · exact h2 k' f hf
    · intro n f hf
      simp only [exec, upd] at hf ⊢
      split at hf
      · simp at hf
      · exact h3 n f hf
    · intro n n' f f' hf hf' he
      simp only [exec, upd] at hf hf'
      split at hf <;> split at hf' <;> simp_all
      exact h4 n n' f f' hf hf' he
  | touch k =>
    simp only [exec]
    cases ht : s.disk (.cache k) with
    | none => exact ⟨h1, h2, h3, h4⟩
    | some g =>
      simp only
      refine ⟨?_, ?_, ?_, ?_⟩
      · intro k' f hf
        simp only [upd] at hf
        by_cases hk : k' = k
        · subst hk; simp at hf; subst hf; simpa using h1 _ _ ht
        · simp [hk] at hf; exact h1 k' f hf
      · intro k' f hf
        simp only [upd] at hf
        by_cases hk : k' = k
        · subst hk; exact h2 _ _ ht
        · simp [hk] at hf; exact h2 k' f hf
      · intro n f hf
        simp only [upd] at hf
        split at hf
        · cases hf; simp
        · have := h3 n f hf; simp only; omega
      · intro n n' f f' hf hf' he
        simp only [upd] at hf hf'
        split at hf <;> split at hf'
        · simp_all
        · cases hf; have := h3 n' f' hf'; simp at he; omega
        · cases hf'; have := h3 n f hf; simp at he; omega
        · exact h4 n n' f f' hf hf' he
  | register k =>
    simp only [exec]
    split
    · exact ⟨h1, h2, h3, h4⟩
    · exact ⟨h1, h2, h3, h4⟩
  | setMax n => exact ⟨h1, h2, h3, h4⟩


/-- Every action of the list is legal in the state in which it executes. -/
def LegalList (s : State) : List Act → Prop
  | [] => True
  | a :: as => Legal resOf s a ∧ LegalList (exec s a) as

theorem execs_nil (s : State) : execs s [] = s := rfl
theorem execs_cons (s : State) (a : Act) (as : List Act) : execs s (a :: as) = execs (exec s a) as := rfl
theorem execs_append (s : State) (as bs : List Act) : execs s (as ++ bs) = execs (execs s as) bs := by
  simp [execs, List.foldl_append]

theorem legalList_append {s : State} {as bs : List Act} :
    LegalList resOf s (as ++ bs) ↔ LegalList resOf s as ∧ LegalList resOf (execs s as) bs := by
  induction as generalizing s with
  | nil => simp [LegalList, execs_nil]
  | cons a as ih => simp [LegalList, execs_cons, ih, and_assoc]

theorem legalList_take {s : State} {as : List Act} (n : Nat) (h : LegalList resOf s as) :
    LegalList resOf s (as.take n) := by
  induction as generalizing s n with
  | nil => simp [LegalList]
  | cons a as ih =>
    cases n with
    | zero => simp [LegalList]
    | succ n => exact ⟨h.1, ih n h.2⟩

theorem diskInv_execs {s : State} {as : List Act} (h : DiskInv resOf s) (hl : LegalList resOf s as) :
    DiskInv resOf (execs s as) := by
  induction as generalizing s with
  | nil => exact h
  | cons a as ih => exact ih (diskInv_exec resOf a h hl.1) hl.2

def Act.isCommit : Act → Bool
  | .commit _ => true
  | _ => false

theorem legalList_of_noCommit {s : State} {as : List Act} (h : ∀ a ∈ as, a.isCommit = false) :
    LegalList resOf s as := by
  induction as generalizing s with
  | nil => trivial
  | cons a as ih =>
    refine ⟨?_, ih (fun b hb => h b (List.mem_cons_of_mem _ hb))⟩
    have := h a (List.mem_cons_self)
    cases a <;> simp_all [Legal, Act.isCommit]

theorem legalList_worker (s : State) (q : Req) : LegalList resOf s (workerActs resOf q) := by
  unfold workerActs
  cases q.outcome <;> simp only [] <;> (try split) <;>
    simp [LegalList, Legal, exec, upd]

theorem legalList_download (s : State) (rr : List Req) :
    LegalList resOf s (downloadActs resOf rr) := by
  unfold downloadActs
  induction rr generalizing s with
  | nil => simp [LegalList]
  | cons q qs ih =>
    rw [List.flatMap_cons, legalList_append]
    exact ⟨legalList_worker resOf s _, ih _⟩

theorem legalList_getActs (s : State) (reqs : List Req) (ran : List Nat) :
    LegalList resOf s (getActs resOf s reqs ran) := by
  unfold getActs
  simp only []
  repeat rw [legalList_append]
  refine ⟨⟨⟨⟨⟨?_, ?_⟩, ?_⟩, ?_⟩, ?_⟩, ?_⟩
  · apply legalList_of_noCommit; intro a ha; simp [validateActs] at ha; obtain ⟨q, _, rfl⟩ := ha; rfl
  · apply legalList_of_noCommit; intro a ha; simp [touchActs] at ha; obtain ⟨q, _, rfl⟩ := ha; rfl
  · exact legalList_download resOf _ _
  · apply legalList_of_noCommit; intro a ha; simp at ha; obtain ⟨q, _, rfl⟩ := ha; rfl
  · apply legalList_of_noCommit; intro a ha; split at ha <;> simp at ha; subst ha; rfl
  · apply legalList_of_noCommit; intro a ha; split at ha <;> simp at ha; obtain ⟨q, _, rfl⟩ := ha; rfl


/-! ### Effect of lists of `rmCache` (validation failures, purge, eviction) -/

theorem execs_rmCache_disk (s : State) (ks : List Nat) (n : FName) :
    (execs s (ks.map Act.rmCache)).disk n =
      if n ∈ ks.map FName.cache then none else s.disk n := by
  induction ks generalizing s with
  | nil => simp [execs_nil]
  | cons k ks ih =>
    simp only [List.map_cons, execs_cons, ih, exec, upd, List.mem_cons]
    by_cases h1 : n ∈ ks.map FName.cache <;> by_cases h2 : n = FName.cache k <;> simp [h1, h2]

theorem execs_rmCache_entries (s : State) (ks : List Nat) :
    (execs s (ks.map Act.rmCache)).entries = s.entries.filter (fun k => k ∉ ks) := by
  induction ks generalizing s with
  | nil =>
    simp only [List.map_nil, execs_nil, List.not_mem_nil, not_false_eq_true, decide_true]
    exact (List.filter_eq_self.2 (fun _ _ => rfl)).symm
  | cons k ks ih =>
    simp only [List.map_cons, execs_cons, ih, exec, List.filter_filter]
    apply List.filter_congr
    intro x _
    by_cases h1 : x ∈ ks <;> by_cases h2 : x = k <;> simp [h1, h2]

theorem execs_rmCache_rest (s : State) (ks : List Nat) :
    let s' := execs s (ks.map Act.rmCache)
    s'.known = s.known ∧ s'.maxSize = s.maxSize ∧ s'.slack = s.slack ∧ s'.tolerant = s.tolerant ∧
      s'.clock = s.clock := by
  induction ks generalizing s with
  | nil => simp [execs_nil]
  | cons k ks ih =>
    simp only [List.map_cons, execs_cons]
    have := ih (exec s (.rmCache k))
    simpa [exec] using this

end Osu.FC
