import OsuProofs.Spectral
import Mathlib.Algebra.Order.Floor.Defs
import Mathlib.Tactic.Push

namespace Osu.Spec

variable {α : Type} [Field α] [LinearOrder α] [IsStrictOrderedRing α]
set_option linter.unusedSectionVars false

/-- what the model assumes about its `floor` parameter (true of `Rat.floor`, `Int.floor`, and of
libm `floor` on finite doubles) -/
def IsFloor (floor : α → ℤ) : Prop := ∀ x : α, ((floor x : ℤ) : α) ≤ x ∧ x < ((floor x : ℤ) : α) + 1

theorem floor_unique {floor : α → ℤ} (hf : IsFloor floor) (x : α) (n : ℤ)
    (h1 : (n : α) ≤ x) (h2 : x < (n : α) + 1) : floor x = n := by
  obtain ⟨g1, g2⟩ := hf x
  have a : ((floor x : ℤ) : α) < (n : α) + 1 := lt_of_le_of_lt g1 h2
  have b : (n : α) < ((floor x : ℤ) : α) + 1 := lt_of_le_of_lt h1 g2
  have a' : floor x < n + 1 := by exact_mod_cast a
  have b' : n < floor x + 1 := by exact_mod_cast b
  omega

/-- `pmod x p ∈ [0, p)` for `p > 0` -/
theorem pmod_range {floor : α → ℤ} (hf : IsFloor floor) (x p : α) (hp : 0 < p) :
    0 ≤ pmod floor x p ∧ pmod floor x p < p := by
  obtain ⟨g1, g2⟩ := hf (x / p)
  unfold pmod
  constructor
  · have : p * ((floor (x / p) : ℤ) : α) ≤ p * (x / p) := mul_le_mul_of_nonneg_left g1 hp.le
    rw [mul_div_cancel₀ x (ne_of_gt hp)] at this
    linarith
  · have : p * (x / p) < p * (((floor (x / p) : ℤ) : α) + 1) := mul_lt_mul_of_pos_left g2 hp
    rw [mul_div_cancel₀ x (ne_of_gt hp)] at this
    linarith

/-- `wrapDiff` returns the representative of `δ` modulo the period in `[d - P, d)` -/
theorem wrapDiff_spec {floor : α → ℤ} (hf : IsFloor floor) (P d δ : α) (hP : 0 < P) :
    (d - P ≤ wrapDiff floor P d δ ∧ wrapDiff floor P d δ < d) ∧
    ∃ k : ℤ, wrapDiff floor P d δ = δ - P * (k : α) := by
  obtain ⟨h1, h2⟩ := pmod_range hf (δ + P - d) P hP
  refine ⟨⟨by unfold wrapDiff; linarith, by unfold wrapDiff; linarith⟩, ?_⟩
  refine ⟨floor ((δ + P - d) / P), ?_⟩
  unfold wrapDiff pmod; ring

/-- uniqueness: a value in `[d - P, d)` that differs from `δ` by a multiple of `P` *is* the
wrapped difference -/
theorem wrapDiff_eq {floor : α → ℤ} (hf : IsFloor floor) (P d δ g : α) (hP : 0 < P) (k : ℤ)
    (hg : g = δ - P * (k : α)) (h1 : d - P ≤ g) (h2 : g < d) : wrapDiff floor P d δ = g := by
  obtain ⟨⟨w1, w2⟩, k', hk'⟩ := wrapDiff_spec hf P d δ hP
  have hdiff : wrapDiff floor P d δ - g = P * (((k - k' : ℤ)) : α) := by
    rw [hk', hg]; push_cast; ring
  have hlt : -P < P * (((k - k' : ℤ)) : α) ∧ P * (((k - k' : ℤ)) : α) < P := by
    rw [← hdiff]; constructor <;> linarith
  have hk0 : k - k' = 0 := by
    obtain ⟨a, b⟩ := hlt
    have a' : (-1 : α) < (((k - k' : ℤ)) : α) := by
      by_contra hc
      rw [not_lt] at hc
      have := mul_le_mul_of_nonneg_left hc hP.le
      linarith
    have b' : (((k - k' : ℤ)) : α) < 1 := by
      by_contra hc
      rw [not_lt] at hc
      have := mul_le_mul_of_nonneg_left hc hP.le
      linarith
    have a'' : (-1 : ℤ) < k - k' := by exact_mod_cast a'
    have b'' : k - k' < (1 : ℤ) := by exact_mod_cast b'
    omega
  rw [hk0] at hdiff
  simp at hdiff
  linarith

/-! ### Direction steps of a grid covering the circle -/

theorem lsum_cyclicDiff_go (first : α) (l : List α) (x : α) :
    lsum (cyclicDiff.go first (x :: l)) = first - x := by
  induction l generalizing x with
  | nil => simp [cyclicDiff.go, lsum]
  | cons y r ih => simp only [cyclicDiff.go, lsum, ih]; ring

/-- the raw cyclic forward differences sum to zero -/
theorem lsum_cyclicDiff (ds : List α) : lsum (cyclicDiff ds) = 0 := by
  cases ds with
  | nil => rfl
  | cons d r => simp [cyclicDiff, lsum_cyclicDiff_go]


theorem lsum_append (l r : List α) : lsum (l ++ r) = lsum l + lsum r := by
  induction l with
  | nil => simp [lsum]
  | cons a l ih => simp only [List.cons_append, lsum, ih]; ring

theorem c360 : (((360 : ℕ) : α)) = 360 := by norm_num
theorem c180 : (((180 : ℕ) : α)) = 180 := by norm_num

/-- `dirStep_pos_sum`: if every forward difference of the grid lies in (0, 180) and the closing
difference `d₀ - d_last` lies in (-360, -180) (i.e. the wrap gap is in (0, 180)), then the direction
steps are exactly the cyclic gaps, all positive, and they sum to 360. -/
theorem dirStep_spec {floor : α → ℤ} (hf : IsFloor floor) (ds init : List α) (last : α)
    (hraw : cyclicDiff ds = init ++ [last])
    (hinit : ∀ δ ∈ init, 0 < δ ∧ δ < 180) (hlast : 0 < last + 360 ∧ last + 360 < 180) :
    dirStep floor ds = init ++ [last + 360] ∧ (∀ s ∈ dirStep floor ds, 0 < s) ∧
    lsum (dirStep floor ds) = 360 := by
  have h1 : dirStep floor ds = init ++ [last + 360] := by
    simp only [dirStep, hraw, List.map_append, List.map_cons, List.map_nil, c360, c180]
    congr 1
    · conv_rhs => rw [← List.map_id init]
      apply List.map_congr_left
      intro δ hδ
      have := hinit δ hδ
      exact wrapDiff_eq hf 360 180 δ δ (by norm_num) 0 (by simp) (by linarith) this.2
    · congr 1
      exact wrapDiff_eq hf 360 180 last (last + 360) (by norm_num) (-1) (by push_cast; ring)
        (by linarith) hlast.2
  refine ⟨h1, ?_, ?_⟩
  · rw [h1]
    intro s hs
    rcases List.mem_append.1 hs with h | h
    · exact (hinit s h).1
    · simp at h; rw [h]; exact hlast.1
  · rw [h1, lsum_append]
    have := lsum_cyclicDiff ds
    rw [hraw, lsum_append] at this
    simp only [lsum] at this ⊢
    linarith

/-- outside "a grid covering the circle": a forward gap of 180 degrees or more produces a
non-positive step -/
theorem wrapDiff_gap_too_wide {floor : α → ℤ} (hf : IsFloor floor) (δ : α) (h1 : 180 ≤ δ) (h2 : δ < 360) :
    wrapDiff floor 360 180 δ = δ - 360 ∧ wrapDiff floor 360 180 δ < 0 := by
  have := wrapDiff_eq hf 360 180 δ (δ - 360) (by norm_num) 1 (by push_cast; ring) (by linarith) (by linarith)
  exact ⟨this, by rw [this]; linarith⟩

/-! ### Directional moments of one frequency row

One record per direction bin: (step, E, cos θ, sin θ). -/

/-- weight of a bin: E·Δθ, a missing E is skipped (counts as 0) -/
def binWeight (q : α × Option α × α × α) : α := fill0 q.2.1 * q.1

theorem dirInt_eq (l : List (α × Option α × α × α)) :
    dirInt (l.map (·.1)) (l.map (·.2.1)) = (l.map binWeight).sum := by
  induction l with
  | nil => simp [dirInt, lsum]
  | cons q l ih =>
    simp only [dirInt, List.map_cons, List.zipWith_cons_cons, lsum, List.sum_cons] at ih ⊢
    rw [ih]
    obtain ⟨s, e, c, sn⟩ := q
    cases e <;> simp [binWeight, fill0]

theorem dirInt_weighted_eq (l : List (α × Option α × α × α)) (t : α × Option α × α × α → α) :
    dirInt (l.map (·.1)) (List.zipWith (fun v c => v.map (· * c)) (l.map (·.2.1)) (l.map t)) =
      (l.map fun q => binWeight q * t q).sum := by
  induction l with
  | nil => simp [dirInt, lsum]
  | cons q l ih =>
    simp only [dirInt, List.map_cons, List.zipWith_cons_cons, lsum, List.sum_cons] at ih ⊢
    rw [ih]
    obtain ⟨s, e, c, sn⟩ := q
    cases e <;> simp [binWeight, fill0]; ring

theorem sum_w_sq (l : List (α × Option α × α × α)) (hcs : ∀ q ∈ l, q.2.2.1 ^ 2 + q.2.2.2 ^ 2 = 1) :
    (l.map fun q => binWeight q * q.2.2.1 ^ 2).sum + (l.map fun q => binWeight q * q.2.2.2 ^ 2).sum =
      (l.map binWeight).sum := by
  induction l with
  | nil => simp
  | cons q l ih =>
    simp only [List.map_cons, List.sum_cons]
    have h1 := hcs q List.mem_cons_self
    have h2 := ih (fun r hr => hcs r (List.mem_cons_of_mem _ hr))
    have : binWeight q * q.2.2.1 ^ 2 + binWeight q * q.2.2.2 ^ 2 = binWeight q := by
      rw [← mul_add, h1, mul_one]
    linarith

/-- Cauchy–Schwarz for a weighted list: (Σ w t)² ≤ (Σ w)(Σ w t²) -/
theorem cs_weighted (l : List (α × Option α × α × α)) (t : α × Option α × α × α → α)
    (hw : ∀ q ∈ l, 0 ≤ binWeight q) :
    (l.map fun q => binWeight q * t q).sum ^ 2 ≤
      (l.map binWeight).sum * (l.map fun q => binWeight q * t q ^ 2).sum := by
  have h := cauchy_schwarz (l.map fun q => (binWeight q, t q))
    (by intro q hq; simp only [List.mem_map] at hq; obtain ⟨r, hr, rfl⟩ := hq; exact hw r hr)
  simp only [S, List.map_map, pow_zero, mul_one, pow_one] at h
  exact h

/-- (Σ w c)² + (Σ w s)² ≤ (Σ w)² when c² + s² = 1 and w ≥ 0 -/
theorem moment_sq_le (l : List (α × Option α × α × α))
    (hw : ∀ q ∈ l, 0 ≤ binWeight q) (hcs : ∀ q ∈ l, q.2.2.1 ^ 2 + q.2.2.2 ^ 2 = 1) :
    (l.map fun q => binWeight q * q.2.2.1).sum ^ 2 + (l.map fun q => binWeight q * q.2.2.2).sum ^ 2 ≤
      (l.map binWeight).sum ^ 2 := by
  have hc := cs_weighted l (fun q => q.2.2.1) hw
  have hs := cs_weighted l (fun q => q.2.2.2) hw
  have hsum := sum_w_sq l hcs
  have : (l.map binWeight).sum * (l.map fun q => binWeight q * q.2.2.1 ^ 2).sum +
      (l.map binWeight).sum * (l.map fun q => binWeight q * q.2.2.2 ^ 2).sum = (l.map binWeight).sum ^ 2 := by
    rw [← mul_add, hsum]; ring
  linarith

/-- |Σ w t| ≤ Σ w when |t| ≤ 1 and w ≥ 0 -/
theorem abs_weighted_le (l : List (α × Option α × α × α)) (t : α × Option α × α × α → α)
    (hw : ∀ q ∈ l, 0 ≤ binWeight q) (ht : ∀ q ∈ l, |t q| ≤ 1) :
    |(l.map fun q => binWeight q * t q).sum| ≤ (l.map binWeight).sum := by
  induction l with
  | nil => simp
  | cons q l ih =>
    simp only [List.map_cons, List.sum_cons]
    have h1 := ih (fun r hr => hw r (List.mem_cons_of_mem _ hr)) (fun r hr => ht r (List.mem_cons_of_mem _ hr))
    have hq := hw q List.mem_cons_self
    have h2 : |binWeight q * t q| ≤ binWeight q := by
      rw [abs_mul, abs_of_nonneg hq]
      calc binWeight q * |t q| ≤ binWeight q * 1 := mul_le_mul_of_nonneg_left (ht q List.mem_cons_self) hq
        _ = binWeight q := mul_one _
    calc |binWeight q * t q + _| ≤ |binWeight q * t q| + |_| := abs_add_le _ _
      _ ≤ _ := add_le_add h2 h1

end Osu.Spec
