import OsuProofs.FileCacheGet

namespace Osu.FC

variable (resOf : Nat → Nat)

/-- The full invariant between operations. -/
structure Inv (s : State) : Prop where
  disk : DiskInv resOf s
  nodup : s.entries.Nodup
  idx : ∀ k, k ∈ s.entries ↔ present s k = true

theorem key_inj {reqs : List Req} (h : reqs.Pairwise (fun a b => a.key ≠ b.key)) {q q' : Req}
    (hq : q ∈ reqs) (hq' : q' ∈ reqs) (hk : q.key = q'.key) : q = q' := by
  induction reqs with
  | nil => simp at hq
  | cons a as ih =>
    rw [List.pairwise_cons] at h
    rcases List.mem_cons.1 hq with h1 | h1 <;> rcases List.mem_cons.1 hq' with h2 | h2
    · rw [h1, h2]
    · subst h1; exact absurd hk (h.1 q' h2)
    · subst h2; exact absurd hk.symm (h.1 q h1)
    · exact ih h.2 h1 h2

theorem nodup_of_nodupB {l : List Nat} (h : nodupB l = true) : l.Nodup := by
  induction l with
  | nil => exact List.nodup_nil
  | cons a as ih =>
    simp [nodupB] at h
    exact List.nodup_cons.2 ⟨h.1, ih h.2⟩

theorem mem_ranReqs {misses : List Req} {ran : List Nat} {q : Req} (h : q ∈ ranReqs misses ran) :
    q ∈ misses ∧ q.key ∈ ran := by
  simp only [ranReqs, List.mem_filterMap] at h
  obtain ⟨k, hk, hf⟩ := h
  have h1 := List.mem_of_find?_eq_some hf
  have h2 := List.find?_some hf
  simp at h2
  exact ⟨h1, h2 ▸ hk⟩

theorem ranReqs_mem {misses : List Req} {ran : List Nat} {q : Req}
    (hm : misses.Pairwise (fun a b => a.key ≠ b.key)) (hq : q ∈ misses) (hr : q.key ∈ ran) :
    q ∈ ranReqs misses ran := by
  simp only [ranReqs, List.mem_filterMap]
  refine ⟨q.key, hr, ?_⟩
  cases hf : misses.find? (fun x => x.key == q.key) with
  | none =>
    rw [List.find?_eq_none] at hf
    exact absurd (by simp) (hf q hq)
  | some q' =>
    have h1 := List.mem_of_find?_eq_some hf
    have h2 := List.find?_some hf
    simp at h2
    rw [key_inj hm h1 hq h2]

theorem ranReqs_pairwise {misses : List Req} {ran : List Nat} (hr : ran.Nodup) :
    (ranReqs misses ran).Pairwise (fun a b => a.key ≠ b.key) := by
  unfold ranReqs
  refine List.Pairwise.filterMap _ ?_ hr
  intro a a' hne b hb b' hb'
  have h1 := List.find?_some hb
  have h2 := List.find?_some hb'
  simp at h1 h2
  rw [h1, h2]; exact hne


/-- Hypotheses under which a request is analysed. -/
structure GetHyp (s : State) (reqs : List Req) (ran : List Nat) : Prop where
  inv : Inv resOf s
  keys : reqs.Pairwise (fun a b => a.key ≠ b.key)
  ranNodup : ran.Nodup
  ranMiss : ∀ k ∈ ran, ∃ q ∈ reqs, isMiss s q = true ∧ q.key = k

structure Phase4Facts (s s4 : State) (reqs : List Req) (ran : List Nat) : Prop where
  inv : Inv resOf s4
  maxSize : s4.maxSize = s.maxSize
  slack : s4.slack = s.slack
  tolerant : s4.tolerant = s.tolerant
  clock : s.clock ≤ s4.clock
  /-- every returned key is on disk, complete, and newer than the start of the request -/
  ret : ∀ q ∈ returned s reqs ran, present s4 q.key = true ∧ s.clock ≤ stampOf s4 q.key
  /-- every other entry is older than the start of the request -/
  old : ∀ k ∈ s4.entries, (∀ q ∈ returned s reqs ran, q.key ≠ k) → stampOf s4 k < s.clock
  /-- a requested key that is not returned has no cache file -/
  failed : ∀ q ∈ reqs, q ∉ returned s reqs ran → present s4 q.key = false
  /-- cache files of keys that were not requested are untouched -/
  frame : ∀ k, (∀ q ∈ reqs, q.key ≠ k) → s4.disk (.cache k) = s.disk (.cache k)
  foreign : ∀ n, s4.disk (.foreign n) = s.disk (.foreign n)
  /-- a hit keeps its content and size -/
  hitData : ∀ q ∈ reqs, isMiss s q = false →
    (s4.disk (.cache q.key)).map (fun f => (f.content, f.size)) =
      (s.disk (.cache q.key)).map (fun f => (f.content, f.size))

theorem phase4_facts (s : State) (reqs : List Req) (ran : List Nat) (h : GetHyp resOf s reqs ran) :
    Phase4Facts resOf s (phase4 resOf s reqs ran) reqs ran := by
  obtain ⟨hinv, hkeys, hrn, hrm⟩ := h
  -- names
  let misses := reqs.filter (isMiss s)
  let hits := reqs.filter (fun q => !isMiss s q)
  let inval := (reqs.filter fun q => q.key ∈ s.entries && q.validate == some false).map (·.key)
  let hitKeys := hits.map (·.key)
  let rr := ranReqs misses ran
  let succKeys := ((misses.filter fun q => q.key ∈ ran).filter (·.succeeds)).map (·.key)
  let s1 := execs s (inval.map Act.rmCache)
  let s2 := execs s1 (hitKeys.map Act.touch)
  let s3 := execs s2 (downloadActs resOf rr)
  let s4 := execs s3 (succKeys.map Act.register)
  have hs4 : phase4 resOf s reqs ran = s4 := by
    simp only [phase4, validateActs, touchActs, List.map_map, s4, s3, s2, s1, inval, hitKeys, succKeys,
      hits, misses, rr]
    rfl
  rw [hs4]
  -- classification of requests
  have hmissPW : misses.Pairwise (fun a b => a.key ≠ b.key) := hkeys.filter _
  have hrrPW : rr.Pairwise (fun a b => a.key ≠ b.key) := ranReqs_pairwise hrn
  have miss_iff : ∀ q, isMiss s q = true ↔ (q.key ∉ s.entries ∨ (q.key ∈ s.entries ∧ q.validate = some false)) := by
    intro q; unfold isMiss; by_cases hq : q.key ∈ s.entries <;> simp [hq]
  have inval_iff : ∀ k, k ∈ inval ↔ ∃ q ∈ reqs, q.key = k ∧ q.key ∈ s.entries ∧ q.validate = some false := by
    intro k; simp [inval]; constructor
    · rintro ⟨q, ⟨h1, h2, h3⟩, h4⟩; exact ⟨q, h1, h4, h2, h3⟩
    · rintro ⟨q, h1, h4, h2, h3⟩; exact ⟨q, ⟨h1, h2, h3⟩, h4⟩
  -- effects
  have e1d := execs_rmCache_disk s inval
  have e1e := execs_rmCache_entries s inval
  obtain ⟨e1k, e1m, e1s, e1t, e1c⟩ := execs_rmCache_rest s inval
  have e2 := touch_effect s1 hitKeys
  have e3 := download_effect resOf s2 rr hrrPW
  obtain ⟨e4d, e4m, e4s, e4t, e4k, e4c, e4n, e4e⟩ := register_effect s3 succKeys
  -- s1: a miss has no file, a hit / unrequested key is untouched
  have s1_miss : ∀ q ∈ reqs, isMiss s q = true → s1.disk (.cache q.key) = none := by
    intro q hq hm
    show (execs s (inval.map Act.rmCache)).disk _ = none
    rw [e1d]
    split
    · rfl
    · next hni =>
      rcases (miss_iff q).1 hm with h1 | ⟨h1, h2⟩
      · cases hd : s.disk (.cache q.key) with
        | none => rfl
        | some f => exact absurd ((hinv.idx q.key).2 (by simp [present, hd])) h1
      · exfalso; apply hni
        simp only [List.mem_map, FName.cache.injEq, exists_eq_right]
        exact (inval_iff q.key).2 ⟨q, hq, rfl, h1, h2⟩
  have s1_keep : ∀ k, k ∉ inval → s1.disk (.cache k) = s.disk (.cache k) := by
    intro k hk
    show (execs s (inval.map Act.rmCache)).disk _ = _
    rw [e1d]; simp [hk]
  have hit_not_inval : ∀ q ∈ reqs, isMiss s q = false → q.key ∉ inval := by
    intro q hq hm hi
    obtain ⟨q', hq', hk, h1, h2⟩ := (inval_iff q.key).1 hi
    have := key_inj hkeys hq' hq hk
    subst this
    have : isMiss s q' = true := (miss_iff q').2 (Or.inr ⟨h1, h2⟩)
    simp [this] at hm
  have unreq_not_inval : ∀ k, (∀ q ∈ reqs, q.key ≠ k) → k ∉ inval := by
    intro k hk hi
    obtain ⟨q', hq', hk', _⟩ := (inval_iff k).1 hi
    exact hk q' hq' hk'
  have hit_entries : ∀ q, isMiss s q = false → q.key ∈ s.entries := by
    intro q hm
    apply Classical.byContradiction; intro hn
    have := (miss_iff q).2 (Or.inl hn); simp [this] at hm
  -- membership in the key lists
  have hitKeys_iff : ∀ k, k ∈ hitKeys ↔ ∃ q ∈ reqs, isMiss s q = false ∧ q.key = k := by
    intro k; simp [hitKeys, hits, and_assoc]
  have rr_iff : ∀ q, q ∈ rr ↔ q ∈ reqs ∧ isMiss s q = true ∧ q.key ∈ ran := by
    intro q; constructor
    · intro hq
      have := mem_ranReqs hq
      simp [misses] at this
      exact ⟨this.1.1, this.1.2, this.2⟩
    · rintro ⟨h1, h2, h3⟩
      exact ranReqs_mem hmissPW (by simp [misses, h1, h2]) h3
  have succ_iff : ∀ k, k ∈ succKeys ↔ ∃ q ∈ reqs, isMiss s q = true ∧ q.key ∈ ran ∧ q.succeeds = true ∧ q.key = k := by
    intro k; simp only [succKeys, misses, List.mem_map, List.mem_filter, decide_eq_true_eq]
    constructor
    · rintro ⟨q, ⟨⟨⟨h1, h2⟩, h3⟩, h4⟩, h5⟩; exact ⟨q, h1, h2, h3, h4, h5⟩
    · rintro ⟨q, h1, h2, h3, h4, h5⟩; exact ⟨q, ⟨⟨⟨h1, h2⟩, h3⟩, h4⟩, h5⟩
  -- not-touched / not-downloaded frames
  have touch_frame : ∀ k, k ∉ hitKeys → s2.disk (.cache k) = s1.disk (.cache k) := by
    intro k hk
    apply e2.other
    intro j hj hjk
    simp at hjk; exact hk (hjk ▸ hj)
  have dl_frame : ∀ k, (∀ q ∈ rr, q.key ≠ k) → s3.disk (.cache k) = s2.disk (.cache k) := by
    intro k hk
    apply e3.other
    intro q hq
    exact ⟨by simpa using (hk q hq).symm, by simp⟩
  have hit_not_rr : ∀ q ∈ reqs, isMiss s q = false → ∀ q' ∈ rr, q'.key ≠ q.key := by
    intro q hq hm q' hq' hk
    have h' := (rr_iff q').1 hq'
    have := key_inj hkeys h'.1 hq hk
    subst this; simp [h'.2.1] at hm
  have miss_not_hit : ∀ q ∈ reqs, isMiss s q = true → q.key ∉ hitKeys := by
    intro q hq hm hh
    obtain ⟨q', hq', hm', hk⟩ := (hitKeys_iff q.key).1 hh
    have := key_inj hkeys hq' hq hk
    subst this; simp [hm] at hm'
  -- final cache file of each class of key
  have fin_unreq : ∀ k, (∀ q ∈ reqs, q.key ≠ k) → s4.disk (.cache k) = s.disk (.cache k) := by
    intro k hk
    show (execs s3 (succKeys.map Act.register)).disk _ = _
    rw [e4d, dl_frame k (fun q hq => hk q ((rr_iff q).1 hq).1), touch_frame k, s1_keep k (unreq_not_inval k hk)]
    intro hh
    obtain ⟨q', hq', _, hk'⟩ := (hitKeys_iff k).1 hh
    exact hk q' hq' hk'
  have fin_hit : ∀ q ∈ reqs, isMiss s q = false →
      s4.disk (.cache q.key) = s2.disk (.cache q.key) := by
    intro q hq hm
    show (execs s3 (succKeys.map Act.register)).disk _ = _
    rw [e4d, dl_frame q.key (hit_not_rr q hq hm)]
  have s2_hit_present : ∀ q ∈ reqs, isMiss s q = false → present s1 q.key = true := by
    intro q hq hm
    simp only [present]
    rw [s1_keep q.key (hit_not_inval q hq hm)]
    exact (hinv.idx q.key).1 (hit_entries q hm)
  have fin_miss_fail : ∀ q ∈ reqs, isMiss s q = true → ¬ (q.key ∈ ran ∧ q.succeeds = true) →
      s4.disk (.cache q.key) = none := by
    intro q hq hm hns
    show (execs s3 (succKeys.map Act.register)).disk _ = _
    rw [e4d]
    by_cases hr : q.key ∈ ran
    · have hqrr : q ∈ rr := (rr_iff q).2 ⟨hq, hm, hr⟩
      have hf : q.succeeds = false := by
        cases h : q.succeeds
        · rfl
        · exact absurd ⟨hr, h⟩ hns
      rw [e3.fail q hqrr hf, touch_frame q.key (miss_not_hit q hq hm), s1_miss q hq hm]
    · rw [dl_frame q.key, touch_frame q.key (miss_not_hit q hq hm), s1_miss q hq hm]
      intro q' hq' hk
      have h' := (rr_iff q').1 hq'
      exact hr (hk ▸ h'.2.2)
  have fin_miss_ok : ∀ q ∈ reqs, isMiss s q = true → q.key ∈ ran → q.succeeds = true →
      ∃ f pp, s4.disk (.cache q.key) = some f ∧ f.content = .full (resOf q.key) pp ∧ s.clock ≤ f.stamp := by
    intro q hq hm hr hs
    have hqrr : q ∈ rr := (rr_iff q).2 ⟨hq, hm, hr⟩
    obtain ⟨f, pp, h1, h2, h3⟩ := e3.ok q hqrr hs
    refine ⟨f, pp, ?_, h2, ?_⟩
    · show (execs s3 (succKeys.map Act.register)).disk _ = _
      rw [e4d]; exact h1
    · have h2c : s1.clock ≤ s2.clock := e2.clock
      have h1c : s1.clock = s.clock := e1c
      omega
  -- disk invariant through the whole list
  have hdisk : DiskInv resOf s4 := by
    have l1 : LegalList resOf s (inval.map Act.rmCache) :=
      legalList_of_noCommit resOf (by intro a ha; simp at ha; obtain ⟨_, _, rfl⟩ := ha; rfl)
    have d1 := diskInv_execs resOf hinv.disk l1
    have l2 : LegalList resOf s1 (hitKeys.map Act.touch) :=
      legalList_of_noCommit resOf (by intro a ha; simp at ha; obtain ⟨_, _, rfl⟩ := ha; rfl)
    have d2 := diskInv_execs resOf d1 l2
    have d3 := diskInv_execs resOf d2 (legalList_download resOf s2 rr)
    have l4 : LegalList resOf s3 (succKeys.map Act.register) :=
      legalList_of_noCommit resOf (by intro a ha; simp at ha; obtain ⟨_, _, rfl⟩ := ha; rfl)
    exact diskInv_execs resOf d3 l4
  -- entries of s4
  have ent4 : ∀ k, k ∈ s4.entries ↔ (k ∈ s.entries ∧ k ∉ inval) ∨ k ∈ succKeys := by
    intro k
    show k ∈ (execs s3 (succKeys.map Act.register)).entries ↔ _
    rw [e4e k, e3.entries, e2.entries]
    show k ∈ (execs s (inval.map Act.rmCache)).entries ∨ _ ↔ _
    rw [e1e]; simp
  have nodup4 : s4.entries.Nodup := by
    apply e4n
    rw [e3.entries, e2.entries]
    show (execs s (inval.map Act.rmCache)).entries.Nodup
    rw [e1e]; exact hinv.nodup.filter _
  -- classification of an arbitrary key
  have classify : ∀ k, (∀ q ∈ reqs, q.key ≠ k) ∨ ∃ q ∈ reqs, q.key = k := by
    intro k
    by_cases h : ∃ q ∈ reqs, q.key = k
    · exact Or.inr h
    · left; intro q hq hk; exact h ⟨q, hq, hk⟩
  have idx4 : ∀ k, k ∈ s4.entries ↔ present s4 k = true := by
    intro k
    rw [ent4 k]
    rcases classify k with hu | ⟨q, hq, rfl⟩
    · simp only [present]; rw [fin_unreq k hu]
      have : k ∉ succKeys := by
        intro hs; obtain ⟨q, hq, _, _, _, hk⟩ := (succ_iff k).1 hs; exact hu q hq hk
      have h1 := hinv.idx k
      simp only [present] at h1
      simp [this, unreq_not_inval k hu, h1]
    · cases hm : isMiss s q
      · -- hit
        have hp : present s4 q.key = true := by
          simp only [present]; rw [fin_hit q hq hm]
          have := e2.data (.cache q.key)
          have hp1 := s2_hit_present q hq hm
          simp only [present] at hp1
          cases h2 : s2.disk (.cache q.key) with
          | none => rw [h2] at this; cases h1 : s1.disk (.cache q.key) with
            | none => simp [h1] at hp1
            | some g => simp [h1] at this
          | some g => rfl
        simp [hp, hit_entries q hm, hit_not_inval q hq hm]
      · -- miss
        by_cases hs : q.key ∈ ran ∧ q.succeeds = true
        · obtain ⟨f, pp, h1, _⟩ := fin_miss_ok q hq hm hs.1 hs.2
          have : q.key ∈ succKeys := (succ_iff q.key).2 ⟨q, hq, hm, hs.1, hs.2, rfl⟩
          simp [present, h1, this]
        · have h1 := fin_miss_fail q hq hm hs
          have hn : q.key ∉ succKeys := by
            intro hh; obtain ⟨q', hq', _, h2, h3, hk⟩ := (succ_iff q.key).1 hh
            have := key_inj hkeys hq' hq hk; subst this; exact hs ⟨h2, h3⟩
          have hn2 : ¬ (q.key ∈ s.entries ∧ q.key ∉ inval) := by
            rintro ⟨h2, h3⟩
            rcases (miss_iff q).1 hm with h4 | ⟨_, h4⟩
            · exact h4 h2
            · exact h3 ((inval_iff q.key).2 ⟨q, hq, rfl, h2, h4⟩)
          simp [present, h1, hn, hn2]
  have ret_iff : ∀ q, q ∈ returned s reqs ran ↔
      q ∈ reqs ∧ (isMiss s q = false ∨ (q.key ∈ ran ∧ q.succeeds = true)) := by
    intro q; simp [returned]
  refine ⟨⟨hdisk, nodup4, idx4⟩, ?_, ?_, ?_, ?_, ?_, ?_, ?_, fin_unreq, ?_, ?_⟩
  · show (execs s3 _).maxSize = _; rw [e4m, e3.maxSize, e2.maxSize, e1m]
  · show (execs s3 _).slack = _; rw [e4s, e3.slack, e2.slack, e1s]
  · show (execs s3 _).tolerant = _; rw [e4t, e3.tolerant, e2.tolerant, e1t]
  · show _ ≤ (execs s3 _).clock; rw [e4c]
    have h3c : s2.clock ≤ s3.clock := e3.clock
    have h2c : s1.clock ≤ s2.clock := e2.clock
    have h1c : s1.clock = s.clock := e1c
    omega
  · -- ret
    intro q hq
    obtain ⟨hq, hc⟩ := (ret_iff q).1 hq
    cases hm : isMiss s q
    · have hp1 := s2_hit_present q hq hm
      have hst := e2.stamp s.clock (by rw [e1c]; exact Nat.le_refl _) q.key
        (Or.inr ⟨(hitKeys_iff q.key).2 ⟨q, hq, hm, rfl⟩, hp1⟩)
      have hfin := fin_hit q hq hm
      have hp : present s4 q.key = true := (idx4 q.key).1 ((ent4 q.key).2
        (Or.inl ⟨hit_entries q hm, hit_not_inval q hq hm⟩))
      refine ⟨hp, ?_⟩
      simp only [stampOf]; rw [hfin]; exact hst
    · rcases hc with hc | hc
      · simp [hm] at hc
      · obtain ⟨f, pp, h1, _, h3⟩ := fin_miss_ok q hq hm hc.1 hc.2
        simp [present, stampOf, h1, h3]
  · -- old
    intro k hk hnr
    rcases classify k with hu | ⟨q, hq, rfl⟩
    · simp only [stampOf]; rw [fin_unreq k hu]
      have hp := (idx4 k).1 hk
      simp only [present] at hp; rw [fin_unreq k hu] at hp
      cases hd : s.disk (.cache k) with
      | none => simp [hd] at hp
      | some f => exact hinv.disk.stamp_lt _ f hd
    · exfalso
      cases hm : isMiss s q
      · exact hnr q ((ret_iff q).2 ⟨hq, Or.inl hm⟩) rfl
      · by_cases hs : q.key ∈ ran ∧ q.succeeds = true
        · exact hnr q ((ret_iff q).2 ⟨hq, Or.inr hs⟩) rfl
        · have := fin_miss_fail q hq hm hs
          have hp := (idx4 q.key).1 hk
          simp [present, this] at hp
  · -- failed
    intro q hq hnr
    have hm : isMiss s q = true := by
      cases h : isMiss s q
      · exact absurd ((ret_iff q).2 ⟨hq, Or.inl h⟩) hnr
      · rfl
    have hs : ¬ (q.key ∈ ran ∧ q.succeeds = true) := fun hs => hnr ((ret_iff q).2 ⟨hq, Or.inr hs⟩)
    simp [present, fin_miss_fail q hq hm hs]
  · -- foreign
    intro n
    show (execs s3 _).disk _ = _
    rw [e4d, e3.other _ (by intro q _; simp), e2.other _ (by intro k _; simp)]
    show (execs s (inval.map Act.rmCache)).disk _ = _
    rw [e1d]; simp
  · -- hitData
    intro q hq hm
    rw [fin_hit q hq hm, e2.data, s1_keep q.key (hit_not_inval q hq hm)]

end Osu.FC
