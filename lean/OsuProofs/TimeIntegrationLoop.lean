import OsuProofs.TimeIntegration

namespace Osu.TI

variable {α : Type} [Field α] [LinearOrder α] [IsStrictOrderedRing α]
set_option linter.unusedSectionVars false

theorem lsum_zip_linear (W : List α) (R : List ℕ) (X Y : ℕ → α) (a b : α) :
    lsum (List.zipWith (fun w j => w * (a * X j + b * Y j)) W R) =
      a * lsum (List.zipWith (fun w j => w * X j) W R) +
      b * lsum (List.zipWith (fun w j => w * Y j) W R) := by
  induction W generalizing R with
  | nil => simp [lsum]
  | cons w W ih =>
    cases R with
    | nil => simp [lsum]
    | cons r R => simp only [List.zipWith_cons_cons, lsum, ih]; ring

theorem applyStencil_linear (W : List α) (nimp : ℕ) (x y : ℕ → α) (a b : α) (ii : ℕ) :
    applyStencil W nimp (fun i => a * x i + b * y i) ii =
      a * applyStencil W nimp x ii + b * applyStencil W nimp y ii := by
  unfold applyStencil
  exact lsum_zip_linear W _ (fun j => x (ii + j - (W.length - nimp))) (fun j => y (ii + j - (W.length - nimp))) a b

/-- The choice between trapezoid and primary stencil never looks at the signal or at the
accumulated value. -/
theorem plan_congr (tol : α) (width n nt : ℕ) (t : ℕ → α) (ii : ℕ) (st st' : Loop α)
    (h1 : st.restart = st'.restart) (h2 : st.count = st'.count) (h3 : st.prevDt = st'.prevDt) :
    plan tol width n nt t ii st = plan tol width n nt t ii st' := by
  simp only [plan, h1, h2, h3]

theorem loop_linear (tol : α) (W : List α) (n nt : ℕ) (t x y : ℕ → α) (a b : α) (k ii : ℕ)
    (st st1 st2 : Loop α)
    (hr1 : st.restart = st1.restart) (hr2 : st.restart = st2.restart)
    (hc1 : st.count = st1.count) (hc2 : st.count = st2.count)
    (hp1 : st.prevDt = st1.prevDt) (hp2 : st.prevDt = st2.prevDt)
    (hl : st.last = a * st1.last + b * st2.last) :
    loop tol W n nt t (fun i => a * x i + b * y i) k ii st =
      List.zipWith (fun p q => (a * p.1 + b * q.1, p.2))
        (loop tol W n nt t x k ii st1) (loop tol W n nt t y k ii st2) := by
  induction k generalizing ii st st1 st2 with
  | zero => simp [loop]
  | succ k ih =>
    simp only [loop, stepOnce]
    rw [plan_congr tol W.length n nt t ii st1 st hr1.symm hc1.symm hp1.symm,
        plan_congr tol W.length n nt t ii st2 st hr2.symm hc2.symm hp2.symm]
    rcases hd : plan tol W.length n nt t ii st with ⟨kind, r', c'⟩
    simp only [List.zipWith_cons_cons]
    congr 1
    · cases kind <;> simp only [applyStencil_linear, hl] <;> ring_nf
    · apply ih
      all_goals try rfl
      cases kind <;> simp only [applyStencil_linear, hl] <;> ring

/-- `integrate` is linear in (signal, start value). -/
theorem integrate_linear (tol : α) (W : List α) (n nt : ℕ) (t x y : ℕ → α) (a b s1 s2 : α) :
    integrate tol W n nt t (fun i => a * x i + b * y i) (a * s1 + b * s2) =
      List.zipWith (fun p q => a * p + b * q)
        (integrate tol W n nt t x s1) (integrate tol W n nt t y s2) := by
  simp only [integrate, integrateK, List.zipWith_cons_cons]
  congr 1
  rw [loop_linear tol W n nt t x y a b (nt - 1) 1
    { restart := true, count := 0, prevDt := t 1 - t 0, last := a * s1 + b * s2 }
    { restart := true, count := 0, prevDt := t 1 - t 0, last := s1 }
    { restart := true, count := 0, prevDt := t 1 - t 0, last := s2 } rfl rfl rfl rfl rfl rfl rfl]
  rw [List.map_zipWith, List.zipWith_map]

/-- The kinds of the steps (trapezoid / primary) depend on the time axis only. -/
theorem kinds_indep (tol : α) (W : List α) (n nt : ℕ) (t x y : ℕ → α) (s1 s2 : α) :
    (integrateK tol W n nt t x s1).map (·.2) = (integrateK tol W n nt t y s2).map (·.2) := by
  have hlen : ∀ (k ii : ℕ) (st1 st2 : Loop α), st1.restart = st2.restart → st1.count = st2.count →
      st1.prevDt = st2.prevDt →
      (loop tol W n nt t x k ii st1).map (·.2) = (loop tol W n nt t y k ii st2).map (·.2) := by
    intro k
    induction k with
    | zero => intros; simp [loop]
    | succ k ih =>
      intro ii st1 st2 h1 h2 h3
      simp only [loop, stepOnce]
      rw [plan_congr tol W.length n nt t ii st1 st2 h1 h2 h3]
      rcases hd : plan tol W.length n nt t ii st2 with ⟨kind, r', c'⟩
      simp only [List.map_cons]
      congr 1
      exact ih _ _ _ rfl rfl rfl
  exact hlen _ _ _ _ rfl rfl rfl

end Osu.TI

namespace Osu.TI

variable {α : Type} [Field α] [LinearOrder α] [IsStrictOrderedRing α]
set_option linter.unusedSectionVars false

theorem absv_eq_abs (a : α) : absv a = |a| := by
  unfold absv
  split
  · next h => rw [abs_of_neg h]
  · next h => rw [abs_of_nonneg (not_lt.1 h)]

/-- step `k` of the time axis -/
def dt (t : ℕ → α) (k : ℕ) : α := t k - t (k - 1)

/-- the code's jitter test between step `k` and the step before it (for `n = 1`) -/
def Jit (tol : α) (t : ℕ → α) (k : ℕ) : Prop := tol * dt t k < absv (dt t k - dt t (k - 1))

/-- loop invariant for `n = 1` -/
structure Q (tol : α) (t : ℕ → α) (width ii : ℕ) (st : Loop α) : Prop where
  prev : 2 ≤ ii → st.prevDt = dt t (ii - 1)
  run : st.restart = true → ∀ k, 2 ≤ k → ii < k + st.count → k < ii → ¬ Jit tol t k
  prim : st.restart = false → ∀ k, 2 ≤ k → ii < k + width → k < ii → ¬ Jit tol t k
  cw : st.restart = false → st.count = width

/-- the code's two jitter comparisons at step `ii` -/
def JitFlag (tol : α) (n nt : ℕ) (t : ℕ → α) (ii : ℕ) (prev : α) : Prop :=
  tol * (t ii - t (ii - 1)) <
      absv ((if ii + n - 1 < nt then t (ii + n - 1) - t (ii + n - 2) else t ii - t (ii - 1)) - prev) ∨
  tol * (t ii - t (ii - 1)) < absv (t ii - t (ii - 1) - prev)

theorem plan_jit (tol : α) (width n nt : ℕ) (t : ℕ → α) (ii : ℕ) (st : Loop α)
    (h : JitFlag tol n nt t ii st.prevDt) :
    plan tol width n nt t ii st = (.trapezoid, !((1 : ℕ) == width), 1) := by
  unfold JitFlag at h
  rcases h with h | h <;> simp [plan, h]

theorem plan_primary (tol : α) (width n nt : ℕ) (t : ℕ → α) (ii : ℕ) (st : Loop α)
    (h : ¬ JitFlag tol n nt t ii st.prevDt) (hin : ii + n - 1 < nt) (hr : st.restart = false) :
    plan tol width n nt t ii st = (.primary, false, st.count) := by
  unfold JitFlag at h
  rw [not_or] at h
  simp only [hin, if_true] at h
  simp [plan, h.1, h.2, hin, hr]

theorem plan_trapezoid (tol : α) (width n nt : ℕ) (t : ℕ → α) (ii : ℕ) (st : Loop α)
    (h : ¬ JitFlag tol n nt t ii st.prevDt) (hc : ¬ (ii + n - 1 < nt) ∨ st.restart = true) :
    plan tol width n nt t ii st = (.trapezoid, !(st.count + 1 == width), st.count + 1) := by
  unfold JitFlag at h
  rw [not_or] at h
  by_cases hin : ii + n - 1 < nt
  · simp only [hin, if_true] at h
    rcases hc with hc | hc
    · exact absurd hin hc
    · simp [plan, h.1, h.2, hin, hc]
  · simp only [hin, if_false] at h
    simp [plan, h.1, hin]

theorem decide_inv (tol : α) (width n nt : ℕ) (t : ℕ → α) (ii : ℕ) (st : Loop α)
    (hq : Q tol t width ii st) :
    let r := plan tol width n nt t ii st
    Q tol t width (ii + 1) { restart := r.2.1, count := r.2.2, prevDt := t ii - t (ii - 1), last := st.last } ∧
    (r.1 = .primary → (ii + n - 1 < nt) ∧ ∀ k, 2 ≤ k → ii < k + width → k ≤ ii → ¬ Jit tol t k) := by
  intro r
  by_cases hj : JitFlag tol n nt t ii st.prevDt
  · -- jitter: trapezoid, counter restarts at 1
    have hr : r = (.trapezoid, !((1 : ℕ) == width), 1) := plan_jit tol width n nt t ii st hj
    rw [hr]
    refine ⟨⟨?_, ?_, ?_, ?_⟩, ?_⟩
    · intro _; simp [dt]
    · intro _ k hk h3 h4; simp at h3; omega
    · intro hr k hk h3 h4; simp at hr; omega
    · intro hr; simp at hr; exact hr
    · intro h; simp at h
  · have hnj : 2 ≤ ii → ¬ Jit tol t ii := by
      intro h2 hJ
      apply hj
      right
      rw [hq.prev h2]
      simpa [Jit, dt] using hJ
    by_cases hc : ¬ (ii + n - 1 < nt) ∨ st.restart = true
    · have hr : r = (.trapezoid, !(st.count + 1 == width), st.count + 1) :=
        plan_trapezoid tol width n nt t ii st hj hc
      rw [hr]
      have clean : ∀ k, 2 ≤ k → ii + 1 < k + (st.count + 1) → k < ii + 1 → ¬ Jit tol t k := by
        intro k hk h3 h4
        by_cases hki : k = ii
        · subst hki; exact hnj hk
        · cases hrs : st.restart
          · have := hq.cw hrs
            exact hq.prim hrs k hk (by omega) (by omega)
          · exact hq.run hrs k hk (by omega) (by omega)
      refine ⟨⟨?_, ?_, ?_, ?_⟩, ?_⟩
      · intro _; simp [dt]
      · intro _ k hk h3 h4; exact clean k hk h3 h4
      · intro hr' k hk h3 h4
        simp at hr'
        exact clean k hk (by omega) h4
      · intro hr'; simp at hr'; exact hr'
      · intro h; simp at h
    · rw [not_or, not_not] at hc
      have hrs : st.restart = false := by cases h : st.restart <;> simp_all
      have hr : r = (.primary, false, st.count) := plan_primary tol width n nt t ii st hj hc.1 hrs
      rw [hr]
      have clean : ∀ k, 2 ≤ k → ii < k + width → k ≤ ii → ¬ Jit tol t k := by
        intro k hk h3 h4
        by_cases hki : k = ii
        · subst hki; exact hnj hk
        · exact hq.prim hrs k hk (by omega) (by omega)
      refine ⟨⟨?_, ?_, ?_, ?_⟩, ?_⟩
      · intro _; simp [dt]
      · intro h; simp at h
      · intro _ k hk h3 h4; exact clean k hk (by omega) (by omega)
      · intro _; exact hq.cw hrs
      · intro _; exact ⟨hc.1, clean⟩

/-- `primary_only_on_uniform`: whenever the high-order stencil is used at step `ii`, the stencil
lies inside the record and every pair of adjacent time steps among the last `width` steps up to
and including `ii` passed the jitter test. -/
theorem loop_primary_uniform (tol : α) (W : List α) (n nt : ℕ) (t x : ℕ → α) (k ii : ℕ) (st : Loop α)
    (hq : Q tol t W.length ii st) :
    ∀ p v, (loop tol W n nt t x k ii st)[p]? = some (v, Kind.primary) →
      (ii + p + n - 1 < nt) ∧
      ∀ j, 2 ≤ j → ii + p < j + W.length → j ≤ ii + p → ¬ Jit tol t j := by
  induction k generalizing ii st with
  | zero => intro p v h; simp [loop] at h
  | succ k ih =>
    intro p v h
    simp only [loop, stepOnce] at h
    have hd := decide_inv tol W.length n nt t ii st hq
    rcases hdec : plan tol W.length n nt t ii st with ⟨kind, r', c'⟩
    rw [hdec] at h hd
    simp only at h hd
    cases p with
    | zero =>
      simp at h
      exact hd.2 h.2
    | succ p =>
      simp only [List.getElem?_cons_succ] at h
      have := (fun hq' => ih (ii + 1) _ hq' p v h) ⟨hd.1.prev, hd.1.run, hd.1.prim, hd.1.cw⟩
      refine ⟨by have := this.1; omega, ?_⟩
      intro j hj h3 h4
      exact this.2 j hj (by omega) (by omega)

/-- the initial loop state satisfies the invariant -/
theorem Q_init (tol : α) (t : ℕ → α) (width : ℕ) (s : α) :
    Q tol t width 1 { restart := true, count := 0, prevDt := t 1 - t 0, last := s } :=
  ⟨fun h => by omega, fun _ k _ h3 h4 => by omega, fun h => by simp at h, fun h => by simp at h⟩

/-- `trapezoid_on_jitter_and_ends`: a step whose jitter test fires, or whose stencil would reach
past the end of the record, is integrated with the trapezoidal rule. -/
theorem decide_trapezoid (tol : α) (width n nt : ℕ) (t : ℕ → α) (ii : ℕ) (st : Loop α)
    (h : ¬ (ii + n - 1 < nt) ∨
      tol * (t ii - t (ii - 1)) < absv (t (ii + n - 1) - t (ii + n - 2) - st.prevDt) ∨
      tol * (t ii - t (ii - 1)) < absv (t ii - t (ii - 1) - st.prevDt)) :
    (plan tol width n nt t ii st).1 = .trapezoid := by
  rcases h with h | h | h
  · simp [plan, h]
  · by_cases hin : ii + n - 1 < nt
    · simp [plan, hin, h]
    · simp [plan, hin]
  · simp [plan, h]

/-- a trapezoid step adds exactly (x[i-1] + x[i]) / 2 * dt -/
theorem trapezoid_step (x : ℕ → α) (ii : ℕ) (h : 1 ≤ ii) :
    applyStencil [half, half] 1 x ii = (x (ii - 1) + x ii) / 2 := by
  have : ii + 1 - 1 = ii := by omega
  simp [applyStencil, lsum, half, List.range, List.range.loop, this]
  ring

end Osu.TI
