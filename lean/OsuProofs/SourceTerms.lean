import OsuProofs.RealTransc
import OsuModel.SourceTerms
import Mathlib.Tactic.Ring
import Mathlib.Tactic.Linarith
import Mathlib.Tactic.Positivity
import Mathlib.Analysis.SpecialFunctions.Exp
import Mathlib.Analysis.SpecialFunctions.Sqrt

/-! Helper lemmas for the source-term model at ℝ. -/
namespace Osu.ST

open Real

theorem lsum_nonneg (l : List ℝ) (h : ∀ x ∈ l, 0 ≤ x) : 0 ≤ lsum l := by
  induction l with
  | nil => simp [lsum]
  | cons a l ih =>
    simp only [lsum]
    exact add_nonneg (h a List.mem_cons_self) (ih fun x hx => h x (List.mem_cons_of_mem _ hx))

theorem mem_zipWith {β γ δ : Type} (f : β → γ → δ) (l : List β) (m : List γ) (x : δ)
    (hx : x ∈ List.zipWith f l m) : ∃ a ∈ l, ∃ b ∈ m, x = f a b := by
  induction l generalizing m with
  | nil => simp at hx
  | cons a l ih =>
    cases m with
    | nil => simp at hx
    | cons b m =>
      simp only [List.zipWith_cons_cons, List.mem_cons] at hx
      rcases hx with rfl | hx
      · exact ⟨a, List.mem_cons_self, b, List.mem_cons_self, rfl⟩
      · obtain ⟨a', ha', b', hb', rfl⟩ := ih m hx
        exact ⟨a', List.mem_cons_of_mem _ ha', b', List.mem_cons_of_mem _ hb', rfl⟩

theorem npow_eq (x : ℝ) (n : ℕ) : npow x n = x ^ n := by
  induction n with
  | zero => simp [npow]
  | succ n ih => simp [npow, ih, pow_succ]

theorem npow_nonneg (x : ℝ) (hx : 0 ≤ x) (n : ℕ) : 0 ≤ npow x n := by
  rw [npow_eq]; positivity

theorem npow_even_nonneg (x : ℝ) : 0 ≤ npow x 4 := by
  rw [npow_eq]; positivity

/-- zipWith of a function that is linear in its first argument -/
theorem zipWith_scale {γ : Type} (f : ℝ → γ → ℝ) (c : ℝ) (hf : ∀ e b, f (c * e) b = c * f e b)
    (l : List ℝ) (m : List γ) :
    List.zipWith f (l.map (c * ·)) m = (List.zipWith f l m).map (c * ·) := by
  induction l generalizing m with
  | nil => simp
  | cons a l ih =>
    cases m with
    | nil => simp
    | cons b m => simp only [List.map_cons, List.zipWith_cons_cons, ih, hf]

end Osu.ST
