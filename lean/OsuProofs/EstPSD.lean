import OsuProofs.EstJacobian

/-! The MEM2 Jacobian is a covariance matrix, hence positive semidefinite (C06). -/
namespace Osu.Est

open Real

theorem wsum_add (g h : List ℝ → ℝ) (lam : List ℝ) (recs : List (List ℝ × ℝ)) :
    wsum (fun col => g col + h col) lam recs = wsum g lam recs + wsum h lam recs := by
  simp only [wsum]
  induction recs with
  | nil => simp [lsum]
  | cons r recs ih => simp only [List.map_cons, lsum, ih]; ring

theorem wsum_smul (c : ℝ) (g : List ℝ → ℝ) (lam : List ℝ) (recs : List (List ℝ × ℝ)) :
    wsum (fun col => c * g col) lam recs = c * wsum g lam recs := by
  simp only [wsum]
  induction recs with
  | nil => simp [lsum]
  | cons r recs ih => simp only [List.map_cons, lsum, ih]; ring

/-- weighted sum of a square, shifted: `Σ w (g - c)² ≥ 0` -/
theorem wsum_sq_nonneg (g : List ℝ → ℝ) (c : ℝ) (lam : List ℝ) (recs : List (List ℝ × ℝ)) (h : ∀ r ∈ recs, 0 ≤ r.2) :
    0 ≤ wsum (fun col => (g col - c) * (g col - c)) lam recs := by
  simp only [wsum]
  induction recs with
  | nil => simp [lsum]
  | cons r recs ih =>
    simp only [List.map_cons, lsum]
    have h1 := h r List.mem_cons_self
    have h2 := ih (fun r' hr' => h r' (List.mem_cons_of_mem _ hr'))
    have h3 := Real.exp_pos (-(ipOf lam r.1))
    have h4 := mul_self_nonneg (g r.1 - c)
    have : 0 ≤ (g r.1 - c) * (g r.1 - c) * r.2 * Real.exp (-(ipOf lam r.1)) := by positivity
    linarith

/-- variance under the weights `Δ·exp(-λ·T)/Z` is non-negative -/
theorem variance_nonneg (g : List ℝ → ℝ) (lam : List ℝ) (recs : List (List ℝ × ℝ))
    (h : ∀ r ∈ recs, 0 < r.2) (hne : recs ≠ []) :
    0 ≤ wsum (fun col => g col * g col) lam recs / wsum (fun _ => 1) lam recs
        - (wsum g lam recs / wsum (fun _ => 1) lam recs) ^ 2 := by
  have hZ := wsum_pos lam recs h hne
  set Z := wsum (fun _ => 1) lam recs
  set A := wsum g lam recs
  have key := wsum_sq_nonneg g (A / Z) lam recs (fun r hr => (h r hr).le)
  have hexp : wsum (fun col => (g col - A / Z) * (g col - A / Z)) lam recs
      = wsum (fun col => g col * g col) lam recs - 2 * (A / Z) * A + (A / Z) ^ 2 * Z := by
    have : (fun col : List ℝ => (g col - A / Z) * (g col - A / Z))
        = fun col => (g col * g col + (-(2 * (A / Z))) * g col) + (A / Z) ^ 2 * 1 := by
      funext col; ring
    rw [this, wsum_add, wsum_add, wsum_smul, wsum_smul]
    ring
  rw [hexp] at key
  have hZ0 : Z ≠ 0 := ne_of_gt hZ
  have : wsum (fun col => g col * g col) lam recs / Z - (A / Z) ^ 2
      = (wsum (fun col => g col * g col) lam recs - 2 * (A / Z) * A + (A / Z) ^ 2 * Z) / Z := by
    field_simp; ring
  rw [this]
  exact div_nonneg key hZ.le

/-- the quadratic form of the covariance matrix: `xᵀ J x = Var_w(x·T)` -/
theorem covEntry_quadratic (lam : List ℝ) (recs : List (List ℝ × ℝ)) (x0 x1 x2 x3 : ℝ) :
    let y : List ℝ → ℝ := fun col => x0 * col.getD 0 0 + x1 * col.getD 1 0 + x2 * col.getD 2 0 + x3 * col.getD 3 0
    x0 * (x0 * covEntry lam recs 0 0 + x1 * covEntry lam recs 0 1 + x2 * covEntry lam recs 0 2 + x3 * covEntry lam recs 0 3)
    + x1 * (x0 * covEntry lam recs 1 0 + x1 * covEntry lam recs 1 1 + x2 * covEntry lam recs 1 2 + x3 * covEntry lam recs 1 3)
    + x2 * (x0 * covEntry lam recs 2 0 + x1 * covEntry lam recs 2 1 + x2 * covEntry lam recs 2 2 + x3 * covEntry lam recs 2 3)
    + x3 * (x0 * covEntry lam recs 3 0 + x1 * covEntry lam recs 3 1 + x2 * covEntry lam recs 3 2 + x3 * covEntry lam recs 3 3)
    = wsum (fun col => y col * y col) lam recs / wsum (fun _ => 1) lam recs
        - (wsum y lam recs / wsum (fun _ => 1) lam recs) ^ 2 := by
  intro y
  -- expand both weighted sums by linearity
  have hy : wsum y lam recs = x0 * wsum (fun col => col.getD 0 0) lam recs + x1 * wsum (fun col => col.getD 1 0) lam recs
      + x2 * wsum (fun col => col.getD 2 0) lam recs + x3 * wsum (fun col => col.getD 3 0) lam recs := by
    simp only [y]
    rw [wsum_add, wsum_add, wsum_add, wsum_smul, wsum_smul, wsum_smul, wsum_smul]
  have hyy : wsum (fun col => y col * y col) lam recs =
      x0 * x0 * wsum (fun col => col.getD 0 0 * col.getD 0 0) lam recs + x0 * x1 * wsum (fun col => col.getD 0 0 * col.getD 1 0) lam recs
      + x0 * x2 * wsum (fun col => col.getD 0 0 * col.getD 2 0) lam recs + x0 * x3 * wsum (fun col => col.getD 0 0 * col.getD 3 0) lam recs
      + x1 * x0 * wsum (fun col => col.getD 1 0 * col.getD 0 0) lam recs + x1 * x1 * wsum (fun col => col.getD 1 0 * col.getD 1 0) lam recs
      + x1 * x2 * wsum (fun col => col.getD 1 0 * col.getD 2 0) lam recs + x1 * x3 * wsum (fun col => col.getD 1 0 * col.getD 3 0) lam recs
      + x2 * x0 * wsum (fun col => col.getD 2 0 * col.getD 0 0) lam recs + x2 * x1 * wsum (fun col => col.getD 2 0 * col.getD 1 0) lam recs
      + x2 * x2 * wsum (fun col => col.getD 2 0 * col.getD 2 0) lam recs + x2 * x3 * wsum (fun col => col.getD 2 0 * col.getD 3 0) lam recs
      + x3 * x0 * wsum (fun col => col.getD 3 0 * col.getD 0 0) lam recs + x3 * x1 * wsum (fun col => col.getD 3 0 * col.getD 1 0) lam recs
      + x3 * x2 * wsum (fun col => col.getD 3 0 * col.getD 2 0) lam recs + x3 * x3 * wsum (fun col => col.getD 3 0 * col.getD 3 0) lam recs := by
    have : (fun col : List ℝ => y col * y col) = fun col =>
        ((((((((((((((( (x0 * x0) * (col.getD 0 0 * col.getD 0 0) + (x0 * x1) * (col.getD 0 0 * col.getD 1 0))
        + (x0 * x2) * (col.getD 0 0 * col.getD 2 0)) + (x0 * x3) * (col.getD 0 0 * col.getD 3 0))
        + (x1 * x0) * (col.getD 1 0 * col.getD 0 0)) + (x1 * x1) * (col.getD 1 0 * col.getD 1 0))
        + (x1 * x2) * (col.getD 1 0 * col.getD 2 0)) + (x1 * x3) * (col.getD 1 0 * col.getD 3 0))
        + (x2 * x0) * (col.getD 2 0 * col.getD 0 0)) + (x2 * x1) * (col.getD 2 0 * col.getD 1 0))
        + (x2 * x2) * (col.getD 2 0 * col.getD 2 0)) + (x2 * x3) * (col.getD 2 0 * col.getD 3 0))
        + (x3 * x0) * (col.getD 3 0 * col.getD 0 0)) + (x3 * x1) * (col.getD 3 0 * col.getD 1 0))
        + (x3 * x2) * (col.getD 3 0 * col.getD 2 0)) + (x3 * x3) * (col.getD 3 0 * col.getD 3 0)) := by
      funext col; simp only [y]; ring
    rw [this]
    simp only [wsum_add, wsum_smul]
  rw [hy, hyy]
  simp only [covEntry]
  ring

/-- **the MEM2 Jacobian (= covariance matrix of the twiddle factors under the current
distribution) is positive semidefinite** -/
theorem cov_psd (lam : List ℝ) (recs : List (List ℝ × ℝ)) (h : ∀ r ∈ recs, 0 < r.2) (hne : recs ≠ []) (x0 x1 x2 x3 : ℝ) :
    0 ≤ x0 * (x0 * covEntry lam recs 0 0 + x1 * covEntry lam recs 0 1 + x2 * covEntry lam recs 0 2 + x3 * covEntry lam recs 0 3)
    + x1 * (x0 * covEntry lam recs 1 0 + x1 * covEntry lam recs 1 1 + x2 * covEntry lam recs 1 2 + x3 * covEntry lam recs 1 3)
    + x2 * (x0 * covEntry lam recs 2 0 + x1 * covEntry lam recs 2 1 + x2 * covEntry lam recs 2 2 + x3 * covEntry lam recs 2 3)
    + x3 * (x0 * covEntry lam recs 3 0 + x1 * covEntry lam recs 3 1 + x2 * covEntry lam recs 3 2 + x3 * covEntry lam recs 3 3) := by
  rw [covEntry_quadratic]
  exact variance_nonneg _ lam recs h hne

end Osu.Est
