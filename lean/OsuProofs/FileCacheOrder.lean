import OsuProofs.FileCacheOps
import Mathlib.Data.List.Perm.Basic
import Mathlib.Data.List.Sort
import Mathlib.Data.List.TakeWhile

/-! Sequential ≡ parallel at the level of the state: what a request leaves behind does not
depend on the completion order of its downloads, except for the time stamps of the downloaded
files themselves. -/
namespace Osu.FC

variable (resOf : Nat → Nat)

/-- content and size of a file, without its time stamp -/
def dataOf (s : State) (n : FName) : Option (Content × Nat) := (s.disk n).map fun f => (f.content, f.size)

/-- everything observable except time stamps (and the ghost list `known`) -/
structure ObsEq (s t : State) : Prop where
  entries : s.entries = t.entries
  maxSize : s.maxSize = t.maxSize
  slack : s.slack = t.slack
  tolerant : s.tolerant = t.tolerant
  clock : s.clock = t.clock
  data : ∀ n, dataOf s n = dataOf t n

/-- what a succeeding worker leaves under the cache name of its key -/
def workerData (q : Req) : Option (Content × Nat) :=
  match q.outcome with
  | .ok size => some (.full (resOf q.key) q.postprocess, size)
  | .raisePost size => if q.postprocess then none else some (.full (resOf q.key) false, size)
  | _ => none

/-- number of clock ticks of one worker -/
def ticks (q : Req) : Nat :=
  match q.outcome with
  | .ok _ => if q.postprocess then 3 else 2
  | .notFound => 0
  | .raiseBefore => 0
  | .raisePartial _ => 1
  | .raisePost _ => 2

structure WorkerObs (s s' : State) (q : Req) : Prop where
  entries : s'.entries = s.entries
  maxSize : s'.maxSize = s.maxSize
  slack : s'.slack = s.slack
  tolerant : s'.tolerant = s.tolerant
  clock : s'.clock = s.clock + ticks q
  other : ∀ n, n ≠ .cache q.key → n ≠ .tmp q.key → s'.disk n = s.disk n
  tmp : s'.disk (.tmp q.key) = none
  cache : dataOf s' (.cache q.key) = if q.succeeds then workerData resOf q else dataOf s (.cache q.key)

theorem worker_obs (s : State) (q : Req) : WorkerObs resOf s (execs s (workerActs resOf q)) q := by
  unfold workerActs
  cases hq : q.outcome <;> by_cases hp : q.postprocess <;>
    simp only [hp, if_true] <;>
    constructor <;>
    simp [execs, exec, upd, Req.succeeds, hq, hp, ticks, workerData, dataOf] <;>
    first
      | omega
      | (intro m h1 h2; simp [h1, h2])
      | (cases hd : s.disk (.tmp q.key) <;> simp [hd, upd])

/-- the download phase, observationally -/
structure DownloadObs (s s' : State) (rr : List Req) : Prop where
  entries : s'.entries = s.entries
  maxSize : s'.maxSize = s.maxSize
  slack : s'.slack = s.slack
  tolerant : s'.tolerant = s.tolerant
  clock : s'.clock = s.clock + (rr.map ticks).sum
  other : ∀ n, (∀ q ∈ rr, n ≠ .cache q.key ∧ n ≠ .tmp q.key) → s'.disk n = s.disk n
  tmp : ∀ q ∈ rr, s'.disk (.tmp q.key) = none
  cache : ∀ q ∈ rr, dataOf s' (.cache q.key) = if q.succeeds then workerData resOf q else dataOf s (.cache q.key)

theorem download_obs (s : State) (rr : List Req) (hd : rr.Pairwise (fun a b => a.key ≠ b.key)) :
    DownloadObs resOf s (execs s (downloadActs resOf rr)) rr := by
  unfold downloadActs
  induction rr generalizing s with
  | nil => constructor <;> simp [execs_nil]
  | cons q qs ih =>
    rw [List.flatMap_cons, execs_append]
    rw [List.pairwise_cons] at hd
    have w := worker_obs resOf s q
    have d := ih (execs s (workerActs resOf q)) hd.2
    constructor
    · rw [d.entries, w.entries]
    · rw [d.maxSize, w.maxSize]
    · rw [d.slack, w.slack]
    · rw [d.tolerant, w.tolerant]
    · rw [d.clock, w.clock]; simp only [List.map_cons, List.sum_cons]; omega
    · intro n hn
      rw [d.other n (fun q' hq' => hn q' (List.mem_cons_of_mem _ hq'))]
      exact w.other n (hn q List.mem_cons_self).1 (hn q List.mem_cons_self).2
    · intro q' hq'
      rcases List.mem_cons.1 hq' with h | h
      · subst h
        rw [d.other _ (fun q'' hq'' => ⟨by simp, by simpa using hd.1 q'' hq''⟩)]
        exact w.tmp
      · exact d.tmp q' h
    · intro q' hq'
      rcases List.mem_cons.1 hq' with h | h
      · subst h
        have : dataOf (execs (execs s (workerActs resOf q')) (List.flatMap (workerActs resOf) qs)) (.cache q'.key)
            = dataOf (execs s (workerActs resOf q')) (.cache q'.key) := by
          simp only [dataOf]
          rw [d.other _ (fun q'' hq'' => ⟨by simpa using hd.1 q'' hq'', by simp⟩)]
        rw [this]; exact w.cache
      · rw [d.cache q' h]
        split
        · rfl
        · simp only [dataOf]
          rw [w.other _ (by simpa using (hd.1 q' h).symm) (by simp)]

/-- two lists of workers with the same members (any order) leave observationally equal states -/
theorem download_obsEq (s : State) (rr₁ rr₂ : List Req)
    (h₁ : rr₁.Pairwise (fun a b => a.key ≠ b.key)) (h₂ : rr₂.Pairwise (fun a b => a.key ≠ b.key))
    (hperm : rr₁.Perm rr₂) :
    ObsEq (execs s (downloadActs resOf rr₁)) (execs s (downloadActs resOf rr₂)) := by
  have d₁ := download_obs resOf s rr₁ h₁
  have d₂ := download_obs resOf s rr₂ h₂
  have hmem : ∀ q, q ∈ rr₁ ↔ q ∈ rr₂ := fun q => hperm.mem_iff
  constructor
  · rw [d₁.entries, d₂.entries]
  · rw [d₁.maxSize, d₂.maxSize]
  · rw [d₁.slack, d₂.slack]
  · rw [d₁.tolerant, d₂.tolerant]
  · rw [d₁.clock, d₂.clock, (hperm.map ticks).sum_nat]
  · intro n
    by_cases hn : ∀ q ∈ rr₁, n ≠ .cache q.key ∧ n ≠ .tmp q.key
    · simp only [dataOf]
      rw [d₁.other n hn, d₂.other n (fun q hq => hn q ((hmem q).2 hq))]
    · simp only [not_forall] at hn
      obtain ⟨q, hq, hne⟩ := hn
      have hq2 := (hmem q).1 hq
      by_cases hc : n = .cache q.key
      · subst hc
        rw [d₁.cache q hq, d₂.cache q hq2]
      · have ht : n = .tmp q.key := by
          by_contra h; exact hne ⟨hc, h⟩
        subst ht
        simp only [dataOf]
        rw [d₁.tmp q hq, d₂.tmp q hq2]

/-! ### congruence of the remaining actions -/

theorem obsEq_register {s t : State} (h : ObsEq s t) (k : Nat) :
    ObsEq (exec s (.register k)) (exec t (.register k)) := by
  have he := h.entries
  simp only [exec, he]
  split
  · exact h
  · exact ⟨by simp [he], h.maxSize, h.slack, h.tolerant, h.clock, h.data⟩

theorem obsEq_registers {s t : State} (h : ObsEq s t) (ks : List Nat) :
    ObsEq (execs s (ks.map Act.register)) (execs t (ks.map Act.register)) := by
  induction ks generalizing s t with
  | nil => simpa [execs_nil] using h
  | cons k ks ih => simp only [List.map_cons, execs_cons]; exact ih (obsEq_register h k)

theorem obsEq_setMax {s t : State} (h : ObsEq s t) (n : Nat) :
    ObsEq (exec s (.setMax n)) (exec t (.setMax n)) :=
  ⟨h.entries, rfl, h.slack, h.tolerant, h.clock, h.data⟩

theorem obsEq_rmCache {s t : State} (h : ObsEq s t) (k : Nat) :
    ObsEq (exec s (.rmCache k)) (exec t (.rmCache k)) := by
  refine ⟨by simp [exec, h.entries], h.maxSize, h.slack, h.tolerant, h.clock, ?_⟩
  intro n
  have := h.data n
  simp only [exec, dataOf, upd] at this ⊢
  split
  · rfl
  · exact this

theorem obsEq_sizeOf {s t : State} (h : ObsEq s t) (k : Nat) : sizeOf s k = sizeOf t k := by
  have := h.data (.cache k)
  simp only [dataOf] at this
  simp only [sizeOf]
  cases hs : s.disk (.cache k) <;> cases ht : t.disk (.cache k) <;> simp [hs, ht] at this ⊢
  exact this.2

theorem obsEq_total {s t : State} (h : ObsEq s t) : total s = total t := by
  simp only [total, h.entries]
  congr 1
  apply List.map_congr_left
  intro k _
  exact obsEq_sizeOf h k

theorem obsEq_enlarge {s t : State} (h : ObsEq s t) (ks : List Nat) : ObsEq (enlarge s ks) (enlarge t ks) := by
  have hsum : (ks.map (sizeOf s)).sum = (ks.map (sizeOf t)).sum := by
    congr 1
    apply List.map_congr_left
    intro k _
    exact obsEq_sizeOf h k
  simp only [enlarge, hsum, h.maxSize, h.slack]
  split
  · exact obsEq_setMax h _
  · exact h

/-! ### the request up to (and including) the enlargement of the cache -/

open Classical in
theorem ranReqs_perm (misses : List Req) (hm : misses.Pairwise (fun a b => a.key ≠ b.key)) (ran₁ ran₂ : List Nat)
    (h₁ : ran₁.Nodup) (h₂ : ran₂.Nodup) (hset : ∀ k, k ∈ ran₁ ↔ k ∈ ran₂) :
    (ranReqs misses ran₁).Perm (ranReqs misses ran₂) := by
  have nd : ∀ ran : List Nat, ran.Nodup → (ranReqs misses ran).Nodup := by
    intro ran hr
    exact (ranReqs_pairwise hr).imp (fun {a b} hab heq => hab (by rw [heq]))
  rw [List.perm_ext_iff_of_nodup (nd ran₁ h₁) (nd ran₂ h₂)]
  intro q
  constructor
  · intro hq
    obtain ⟨a, b⟩ := mem_ranReqs hq
    exact ranReqs_mem hm a ((hset _).1 b)
  · intro hq
    obtain ⟨a, b⟩ := mem_ranReqs hq
    exact ranReqs_mem hm a ((hset _).2 b)

/-- the state before eviction does not depend on the completion order (up to time stamps) -/
theorem preEvict_obsEq (s : State) (reqs : List Req) (ran₁ ran₂ : List Nat)
    (hk : reqs.Pairwise (fun a b => a.key ≠ b.key))
    (h₁ : ran₁.Nodup) (h₂ : ran₂.Nodup) (hset : ∀ k, k ∈ ran₁ ↔ k ∈ ran₂) :
    ObsEq (preEvict resOf s reqs ran₁) (preEvict resOf s reqs ran₂) := by
  have hdec : ∀ k, decide (k ∈ ran₁) = decide (k ∈ ran₂) := fun k => by simp [hset k]
  have hret : returned s reqs ran₁ = returned s reqs ran₂ := by
    simp only [returned]
    apply List.filter_congr
    intro q _
    rw [hdec]
  have hsucc : ((reqs.filter (isMiss s)).filter fun q => decide (q.key ∈ ran₁)) =
      ((reqs.filter (isMiss s)).filter fun q => decide (q.key ∈ ran₂)) := by
    apply List.filter_congr
    intro q _
    exact hdec q.key
  have hm : (reqs.filter (isMiss s)).Pairwise (fun a b => a.key ≠ b.key) := hk.filter _
  have hperm := ranReqs_perm (reqs.filter (isMiss s)) hm ran₁ ran₂ h₁ h₂ hset
  have hd := download_obsEq resOf
    (execs (execs s (validateActs s reqs)) (touchActs (reqs.filter fun q => !isMiss s q)))
    _ _ (ranReqs_pairwise h₁) (ranReqs_pairwise h₂) hperm
  simp only [preEvict, phase4, hret, hsucc]
  apply obsEq_enlarge
  have hmm : ∀ l : List Req, l.map (fun q => Act.register q.key) = (l.map (·.key)).map Act.register := by
    intro l; rw [List.map_map]; rfl
  rw [hmm]
  exact obsEq_registers hd _

/-! ### eviction -/

/-- the eviction loop only looks at sizes, the limit and the index: observationally equal states
evict the same keys along the same list and stay observationally equal -/
theorem evictedBy_obsEq (l : List Nat) {s t : State} (h : ObsEq s t) : evictedBy l s = evictedBy l t := by
  induction l generalizing s t with
  | nil => rfl
  | cons k ks ih =>
    simp only [evictedBy, obsEq_total h, h.maxSize]
    split
    · rw [ih (obsEq_rmCache h k)]
    · rfl

theorem obsEq_rmCaches {s t : State} (h : ObsEq s t) (ks : List Nat) :
    ObsEq (execs s (ks.map Act.rmCache)) (execs t (ks.map Act.rmCache)) := by
  induction ks generalizing s t with
  | nil => simpa [execs_nil] using h
  | cons k ks ih => simp only [List.map_cons, execs_cons]; exact ih (obsEq_rmCache h k)

/-- if no key of the tail `B` is evicted, the eviction along `A ++ B` is the eviction along `A` -/
theorem evictedBy_append_of_not_mem (A B : List Nat) (s : State)
    (h : ∀ b ∈ B, b ∉ evictedBy (A ++ B) s) : evictedBy (A ++ B) s = evictedBy A s := by
  induction A generalizing s with
  | nil =>
    cases B with
    | nil => rfl
    | cons b B =>
      simp only [List.nil_append, evictedBy] at h ⊢
      split
      · rename_i hov
        have := h b List.mem_cons_self
        simp [hov] at this
      · rfl
  | cons a A ih =>
    simp only [List.cons_append, evictedBy] at h ⊢
    split
    · rename_i hov
      congr 1
      apply ih
      intro b hb
      have := h b hb
      simp only [hov, if_true, List.mem_cons, not_or] at this
      exact this.2
    · rfl

/-- a list sorted by a key: the elements below a threshold are an initial segment -/
theorem filter_eq_takeWhile_of_sorted (st : Nat → Nat) (c : Nat) (l : List Nat)
    (hs : l.Pairwise (fun a b => st a ≤ st b)) :
    l.filter (fun x => decide (st x < c)) = l.takeWhile (fun x => decide (st x < c)) := by
  induction l with
  | nil => rfl
  | cons a l ih =>
    rw [List.pairwise_cons] at hs
    by_cases ha : st a < c
    · simp only [List.filter_cons, List.takeWhile_cons, ha, decide_true, if_true]
      rw [ih hs.2]
    · simp only [List.filter_cons, List.takeWhile_cons, ha, decide_false, Bool.false_eq_true, if_false]
      rw [List.filter_eq_nil_iff]
      intro x hx
      have := hs.1 x hx
      simp only [decide_eq_true_eq]
      omega

/-- two orderings of the same keys by two key functions that agree below a common threshold (and
are injective there) have the same initial segment below the threshold -/
theorem sorted_prefix_eq (st₁ st₂ : Nat → Nat) (c : Nat) (l₁ l₂ : List Nat)
    (hperm : l₁.Perm l₂)
    (hs₁ : l₁.Pairwise (fun a b => st₁ a ≤ st₁ b)) (hs₂ : l₂.Pairwise (fun a b => st₂ a ≤ st₂ b))
    (hnd : l₁.Nodup)
    (hlow : ∀ x ∈ l₁, (st₁ x < c ↔ st₂ x < c))
    (hagree : ∀ x ∈ l₁, st₁ x < c → st₁ x = st₂ x)
    (hinj : ∀ x ∈ l₁, ∀ y ∈ l₁, st₁ x < c → st₁ y < c → st₁ x = st₁ y → x = y) :
    l₁.takeWhile (fun x => decide (st₁ x < c)) = l₂.takeWhile (fun x => decide (st₂ x < c)) := by
  rw [← filter_eq_takeWhile_of_sorted st₁ c l₁ hs₁, ← filter_eq_takeWhile_of_sorted st₂ c l₂ hs₂]
  -- same predicate on the common elements
  have hpred : l₂.filter (fun x => decide (st₂ x < c)) = l₂.filter (fun x => decide (st₁ x < c)) := by
    apply List.filter_congr
    intro x hx
    have := hlow x (hperm.mem_iff.2 hx)
    simp [this]
  rw [hpred]
  have hp : (l₁.filter (fun x => decide (st₁ x < c))).Perm (l₂.filter (fun x => decide (st₁ x < c))) :=
    hperm.filter _
  -- both are strictly sorted by st₁
  have strict : ∀ l : List Nat, (∀ x ∈ l, x ∈ l₁) → l.Nodup → ∀ st : Nat → Nat,
      (∀ x ∈ l, st₁ x < c → st x = st₁ x) →
      l.Pairwise (fun a b => st a ≤ st b) →
      (l.filter (fun x => decide (st₁ x < c))).Pairwise (fun a b => st₁ a < st₁ b) := by
    intro l hsub hnd' st hst hsorted
    have h1 : (l.filter (fun x => decide (st₁ x < c))).Pairwise (fun a b => st a ≤ st b) := hsorted.filter _
    have h2 : (l.filter (fun x => decide (st₁ x < c))).Nodup := hnd'.filter _
    have h3 := h1.and h2
    refine h3.imp_of_mem ?_
    intro a b ha hb hab
    simp only [List.mem_filter, decide_eq_true_eq] at ha hb
    have ea := hst a ha.1 ha.2
    have eb := hst b hb.1 hb.2
    rw [ea, eb] at hab
    rcases Nat.lt_or_ge (st₁ a) (st₁ b) with hlt | hge
    · exact hlt
    · exfalso
      have heq : st₁ a = st₁ b := Nat.le_antisymm hab.1 hge
      exact hab.2 (hinj a (hsub a ha.1) b (hsub b hb.1) ha.2 hb.2 heq)
  have s1 := strict l₁ (fun x hx => hx) hnd st₁ (fun _ _ _ => rfl) hs₁
  have s2 := strict l₂ (fun x hx => hperm.mem_iff.2 hx) (hperm.nodup_iff.1 hnd) st₂
    (fun x hx hlt => (hagree x (hperm.mem_iff.2 hx) hlt).symm) hs₂
  haveI : IsAntisymm Nat (fun a b => st₁ a < st₁ b) := ⟨fun a b h1 h2 => absurd h1 (Nat.lt_asymm h2)⟩
  exact hp.eq_of_pairwise' s1 s2

theorem returned_keys_nodup' {s : State} {reqs : List Req} {ran : List Nat}
    (hk : reqs.Pairwise (fun a b => a.key ≠ b.key)) : ((returned s reqs ran).map (·.key)).Nodup := by
  have h1 : (returned s reqs ran).Pairwise (fun a b => a.key ≠ b.key) := hk.filter _
  rw [List.Nodup, List.pairwise_map]
  exact h1

/-- stamps before eviction, relative to the clock at the start of the request: returned keys are
at or above it, every other entry is below it and untouched by the request -/
theorem preEvict_stamps {s : State} {reqs : List Req} {ran : List Nat} (h : GetHyp resOf s reqs ran) :
    let P := preEvict resOf s reqs ran
    let R := (returned s reqs ran).map (·.key)
    (∀ k ∈ R, s.clock ≤ stampOf P k) ∧
    (∀ k ∈ P.entries, k ∉ R → stampOf P k < s.clock ∧ P.disk (.cache k) = s.disk (.cache k)) := by
  have f := phase4_facts resOf s reqs ran h
  obtain ⟨hinv5, hd5, he5, _, _⟩ := preEvict_facts resOf h
  have hst : ∀ k, stampOf (preEvict resOf s reqs ran) k = stampOf (phase4 resOf s reqs ran) k := by
    intro k; simp only [stampOf, hd5]
  constructor
  · intro k hk
    obtain ⟨q, hq, rfl⟩ := List.mem_map.1 hk
    rw [hst]; exact (f.ret q hq).2
  · intro k hk hkR
    rw [he5] at hk
    have hold := f.old k hk (fun q hq hqk => hkR (List.mem_map.2 ⟨q, hq, hqk⟩))
    refine ⟨by rw [hst]; exact hold, ?_⟩
    -- k is not requested at all: a requested key that is not returned has no file
    have hunreq : ∀ q ∈ reqs, q.key ≠ k := by
      intro q hq hqk
      have hnr : q ∉ returned s reqs ran := fun hr => hkR (List.mem_map.2 ⟨q, hr, hqk⟩)
      have := f.failed q hq hnr
      rw [hqk] at this
      have hpres := (f.inv.idx k).1 hk
      rw [this] at hpres
      exact absurd hpres (by simp)
    rw [hd5]; exact f.frame k hunreq

open Classical in
/-- eviction from two observationally equal states whose stamps agree on the unprotected entries
and are above a common threshold exactly on the protected keys `R` (which fit): same evicted
keys, observationally equal results -/
theorem evict_obsEq_core (P₁ P₂ : State) (R : List Nat) (c : Nat)
    (inv₁ : Inv resOf P₁) (inv₂ : Inv resOf P₂) (hP : ObsEq P₁ P₂) (hRnd : R.Nodup)
    (r₁ : ∀ k ∈ R, c ≤ stampOf P₁ k) (r₂ : ∀ k ∈ R, c ≤ stampOf P₂ k)
    (o₁ : ∀ k ∈ P₁.entries, k ∉ R → stampOf P₁ k < c) (o₂ : ∀ k ∈ P₂.entries, k ∉ R → stampOf P₂ k < c)
    (hag : ∀ k ∈ P₁.entries, k ∉ R → stampOf P₁ k = stampOf P₂ k)
    (fit₁ : (R.map (sizeOf P₁)).sum ≤ P₁.maxSize) (fit₂ : (R.map (sizeOf P₂)).sum ≤ P₂.maxSize) :
    evictedBy (evictOrder P₁) P₁ = evictedBy (evictOrder P₂) P₂ ∧ ObsEq (evict P₁) (evict P₂) := by
  have hE : P₁.entries = P₂.entries := hP.entries
  have hpermL : (evictOrder P₁).Perm (evictOrder P₂) := by
    rw [List.perm_ext_iff_of_nodup (evictOrder_nodup _ inv₁.nodup) (evictOrder_nodup _ inv₂.nodup)]
    intro k; rw [evictOrder_mem, evictOrder_mem, hE]
  have hlow₁ : ∀ x ∈ P₁.entries, (stampOf P₁ x < c ↔ x ∉ R) := by
    intro x hx
    constructor
    · intro hlt hxR; have := r₁ x hxR; omega
    · intro hxR; exact o₁ x hx hxR
  have hlow₂ : ∀ x ∈ P₂.entries, (stampOf P₂ x < c ↔ x ∉ R) := by
    intro x hx
    constructor
    · intro hlt hxR; have := r₂ x hxR; omega
    · intro hxR; exact o₂ x hx hxR
  have hpre := sorted_prefix_eq (stampOf P₁) (stampOf P₂) c (evictOrder P₁) (evictOrder P₂) hpermL
    (evictOrder_sorted P₁) (evictOrder_sorted P₂) (evictOrder_nodup _ inv₁.nodup)
    (fun x hx => by
      have hx' := (evictOrder_mem P₁ x).1 hx
      rw [hlow₁ x hx', hlow₂ x (hE ▸ hx')])
    (fun x hx hlt => by
      have hx' := (evictOrder_mem P₁ x).1 hx
      exact hag x hx' ((hlow₁ x hx').1 hlt))
    (fun x hx y hy _ _ heq => by
      have hx' := (inv₁.idx x).1 ((evictOrder_mem P₁ x).1 hx)
      have hy' := (inv₁.idx y).1 ((evictOrder_mem P₁ y).1 hy)
      simp only [present, Option.isSome_iff_exists] at hx' hy'
      obtain ⟨fx, hfx⟩ := hx'
      obtain ⟨fy, hfy⟩ := hy'
      have hst : fx.stamp = fy.stamp := by
        have := heq
        simp only [stampOf, hfx, hfy] at this
        exact this
      have := inv₁.disk.stamp_inj _ _ fx fy hfx hfy hst
      exact FName.cache.inj this)
  have prot : ∀ (P : State) (invP : Inv resOf P),
      (∀ k ∈ R, c ≤ stampOf P k) → (∀ k ∈ P.entries, k ∉ R → stampOf P k < c) →
      (R.map (sizeOf P)).sum ≤ P.maxSize → ∀ r ∈ R, r ∉ evictedBy (evictOrder P) P := by
    intro P invP hr ho hfit
    apply protected_not_evicted (evictOrder P) P R invP.nodup (evictOrder_nodup _ invP.nodup) (evictOrder_mem P)
      (evictOrder_sorted P) hRnd
    · intro r hrR e he heR
      have := hr r hrR; have := ho e he heR; omega
    · exact hfit
  have split : ∀ (P : State), (∀ x ∈ P.entries, (stampOf P x < c ↔ x ∉ R)) → (evictOrder P).Nodup →
      (∀ r ∈ R, r ∉ evictedBy (evictOrder P) P) →
      evictedBy (evictOrder P) P =
        evictedBy ((evictOrder P).takeWhile (fun x => decide (stampOf P x < c))) P := by
    intro P hlow hnd hprot
    have happ := List.takeWhile_append_dropWhile (p := fun x => decide (stampOf P x < c)) (l := evictOrder P)
    have hB : ∀ b ∈ (evictOrder P).dropWhile (fun x => decide (stampOf P x < c)), b ∈ R := by
      intro b hb
      by_contra hbR
      have hbL : b ∈ evictOrder P := by rw [← happ]; exact List.mem_append_right _ hb
      have hlt := (hlow b ((evictOrder_mem P b).1 hbL)).2 hbR
      have hbA : b ∈ (evictOrder P).takeWhile (fun x => decide (stampOf P x < c)) := by
        rw [← filter_eq_takeWhile_of_sorted (stampOf P) c (evictOrder P) (evictOrder_sorted P)]
        simp [List.mem_filter, hbL, hlt]
      rw [← happ] at hnd
      exact (List.disjoint_of_nodup_append hnd) hbA hb
    conv_lhs => rw [← happ]
    apply evictedBy_append_of_not_mem
    intro b hb
    rw [happ]
    exact hprot b (hB b hb)
  have e₁ := split P₁ hlow₁ (evictOrder_nodup _ inv₁.nodup) (prot P₁ inv₁ r₁ o₁ fit₁)
  have e₂ := split P₂ hlow₂ (evictOrder_nodup _ inv₂.nodup) (prot P₂ inv₂ r₂ o₂ fit₂)
  have hev : evictedBy (evictOrder P₁) P₁ = evictedBy (evictOrder P₂) P₂ := by
    rw [e₁, e₂, hpre]
    exact evictedBy_obsEq _ hP
  refine ⟨hev, ?_⟩
  simp only [evict]
  rw [evictLoop_eq_execs, evictLoop_eq_execs, hev]
  exact obsEq_rmCaches hP _

/-- **Sequential ≡ parallel, state**: two admissible completion orders with the same set of
completed downloads leave observationally equal caches (index, limit, clock, content and size of
every file — everything except the time stamps of the files downloaded by this request) and evict
the same files -/
theorem get_obsEq (s : State) (reqs : List Req) (ran₁ ran₂ : List Nat) (hinv : Inv resOf s)
    (hk : reqs.Pairwise (fun a b => a.key ≠ b.key))
    (h₁ : scheduleOk s.tolerant (reqs.filter (isMiss s)) ran₁ = true)
    (h₂ : scheduleOk s.tolerant (reqs.filter (isMiss s)) ran₂ = true)
    (hset : ∀ k, k ∈ ran₁ ↔ k ∈ ran₂) :
    ObsEq (get resOf s reqs ran₁).state (get resOf s reqs ran₂).state ∧
    (get resOf s reqs ran₁).evicted = (get resOf s reqs ran₂).evicted := by
  have g₁ := getHyp_of_scheduleOk resOf hinv hk h₁
  have g₂ := getHyp_of_scheduleOk resOf hinv hk h₂
  have hP := preEvict_obsEq resOf s reqs ran₁ ran₂ hk g₁.ranNodup g₂.ranNodup hset
  rw [get_state resOf h₁, get_state resOf h₂, get_evicted resOf h₁, get_evicted resOf h₂]
  split
  · exact ⟨hP, rfl⟩
  · have hdec : ∀ k, decide (k ∈ ran₁) = decide (k ∈ ran₂) := fun k => by simp [hset k]
    have hret : returned s reqs ran₁ = returned s reqs ran₂ := by
      simp only [returned]
      apply List.filter_congr
      intro q _
      rw [hdec]
    obtain ⟨r₁, o₁⟩ := preEvict_stamps resOf g₁
    obtain ⟨r₂, o₂⟩ := preEvict_stamps resOf g₂
    obtain ⟨inv₁, _, _, fit₁, _⟩ := preEvict_facts resOf g₁
    obtain ⟨inv₂, _, _, fit₂, _⟩ := preEvict_facts resOf g₂
    rw [← hret] at r₂ o₂ fit₂
    have core := evict_obsEq_core resOf (preEvict resOf s reqs ran₁) (preEvict resOf s reqs ran₂)
      ((returned s reqs ran₁).map (·.key)) s.clock inv₁ inv₂ hP (returned_keys_nodup' hk)
      r₁ r₂ (fun k hk' hkR => (o₁ k hk' hkR).1) (fun k hk' hkR => (o₂ k hk' hkR).1)
      (fun k hk' hkR => by
        have e1 := (o₁ k hk' hkR).2
        have e2 := (o₂ k (hP.entries ▸ hk') hkR).2
        simp only [stampOf, e1, e2])
      fit₁ fit₂
    exact ⟨core.2, core.1⟩

end Osu.FC
