import OsuProofs.RealTransc
import OsuModel.SourceTerms
import Mathlib.Analysis.Calculus.Deriv.MeanValue
import Mathlib.Analysis.SpecialFunctions.Log.Deriv
import Mathlib.Analysis.SpecialFunctions.Pow.Real
import Mathlib.Tactic.Linarith
import Mathlib.Tactic.Positivity
import Mathlib.Tactic.FieldSimp

/-! Monotonicity of the exact Charnock roughness (no viscous term) in the wind speed (C10). -/
namespace Osu.Charnock

open Real Set

/-- `φ(z) = z · ln²(h/z)`: the Charnock equation without the viscous term is `φ(z0) = α κ² U² / g` -/
noncomputable def phi (h z : ℝ) : ℝ := z * Real.log (h / z) ^ 2

theorem hasDerivAt_phi (h z : ℝ) (hh : 0 < h) (hz : 0 < z) :
    HasDerivAt (phi h) (Real.log (h / z) ^ 2 - 2 * Real.log (h / z)) z := by
  have hne : z ≠ 0 := hz.ne'
  have h1 : HasDerivAt (fun x : ℝ => h / x) (-h / z ^ 2) z := by
    have h0 : HasDerivAt (fun y : ℝ => h * y⁻¹) (h * -(z ^ 2)⁻¹) z := (hasDerivAt_inv hne).const_mul h
    have h0' : HasDerivAt (fun x : ℝ => h / x) (h * -(z ^ 2)⁻¹) z := by
      simpa only [div_eq_mul_inv] using h0
    exact h0'.congr_deriv (by field_simp)
  have hpos : h / z ≠ 0 := (div_pos hh hz).ne'
  have h2 : HasDerivAt (fun x : ℝ => Real.log (h / x)) (-h / z ^ 2 / (h / z)) z := h1.log hpos
  have h3 : HasDerivAt (fun x : ℝ => Real.log (h / x) ^ 2) (2 * Real.log (h / z) ^ (2 - 1) * (-h / z ^ 2 / (h / z))) z :=
    h2.pow 2
  have h4 : HasDerivAt (fun x : ℝ => x * Real.log (h / x) ^ 2)
      (1 * Real.log (h / z) ^ 2 + z * (2 * Real.log (h / z) ^ (2 - 1) * (-h / z ^ 2 / (h / z)))) z :=
    (hasDerivAt_id' z).mul h3
  have h5 : HasDerivAt (phi h) (1 * Real.log (h / z) ^ 2 + z * (2 * Real.log (h / z) ^ (2 - 1) * (-h / z ^ 2 / (h / z)))) z := h4
  refine h5.congr_deriv ?_
  have hh' : h ≠ 0 := hh.ne'
  field_simp
  ring

/-- `φ` is strictly increasing on `(0, h/e²)` (there `ln(h/z) > 2`) -/
theorem phi_strictMonoOn (h : ℝ) (hh : 0 < h) : StrictMonoOn (phi h) (Ioo 0 (h / Real.exp 2)) := by
  apply strictMonoOn_of_deriv_pos (convex_Ioo _ _)
  · intro z hz
    exact (hasDerivAt_phi h z hh hz.1).continuousAt.continuousWithinAt
  · intro z hz
    rw [interior_Ioo] at hz
    rw [(hasDerivAt_phi h z hh hz.1).deriv]
    have hL : 2 < Real.log (h / z) := by
      rw [Real.lt_log_iff_exp_lt (div_pos hh hz.1)]
      have := hz.2
      rw [lt_div_iff₀ (Real.exp_pos 2)] at this
      rw [lt_div_iff₀ hz.1]
      linarith [mul_comm z (Real.exp 2)]
    nlinarith [hL]

/-- an exact solution of `z = α (κ U / ln(h/z))² / g` satisfies `φ(z) = α κ² U² / g` -/
theorem fixed_point_phi (alpha kappa g h U z : ℝ) (hL : Real.log (h / z) ≠ 0)
    (hz : z = alpha * (kappa * U / Real.log (h / z)) ^ 2 / g) :
    phi h z = alpha * kappa ^ 2 * U ^ 2 / g := by
  simp only [phi]
  have : z * Real.log (h / z) ^ 2 = alpha * (kappa * U / Real.log (h / z)) ^ 2 / g * Real.log (h / z) ^ 2 := by
    rw [← hz]
  rw [this]
  field_simp

/-- **the exact Charnock roughness increases with the wind speed** (no viscous term): two exact
solutions in the physical range `(0, h/e²)` for `0 ≤ U1 < U2` satisfy `z1 < z2` -/
theorem roughness_increases (alpha kappa g h U1 U2 z1 z2 : ℝ) (hh : 0 < h) (ha : 0 < alpha) (hk : 0 < kappa) (hg : 0 < g)
    (hU1 : 0 ≤ U1) (hU : U1 < U2)
    (hz1 : z1 ∈ Ioo 0 (h / Real.exp 2)) (hz2 : z2 ∈ Ioo 0 (h / Real.exp 2))
    (hf1 : z1 = alpha * (kappa * U1 / Real.log (h / z1)) ^ 2 / g)
    (hf2 : z2 = alpha * (kappa * U2 / Real.log (h / z2)) ^ 2 / g) : z1 < z2 := by
  have hlog : ∀ z ∈ Ioo 0 (h / Real.exp 2), Real.log (h / z) ≠ 0 := by
    intro z hz
    have : 2 < Real.log (h / z) := by
      rw [Real.lt_log_iff_exp_lt (div_pos hh hz.1)]
      have := hz.2
      rw [lt_div_iff₀ (Real.exp_pos 2)] at this
      rw [lt_div_iff₀ hz.1]
      linarith [mul_comm z (Real.exp 2)]
    linarith
  have e1 := fixed_point_phi alpha kappa g h U1 z1 (hlog z1 hz1) hf1
  have e2 := fixed_point_phi alpha kappa g h U2 z2 (hlog z2 hz2) hf2
  have hlt : phi h z1 < phi h z2 := by
    rw [e1, e2]
    have : U1 ^ 2 < U2 ^ 2 := by nlinarith
    have hc : 0 < alpha * kappa ^ 2 / g := by positivity
    calc alpha * kappa ^ 2 * U1 ^ 2 / g = alpha * kappa ^ 2 / g * U1 ^ 2 := by ring
      _ < alpha * kappa ^ 2 / g * U2 ^ 2 := by exact mul_lt_mul_of_pos_left this hc
      _ = alpha * kappa ^ 2 * U2 ^ 2 / g := by ring
  exact ((phi_strictMonoOn h hh).lt_iff_lt hz1 hz2).1 hlt

/-- the drag coefficient `(κ / ln(h/z))²` increases with the roughness on `(0, h)` -/
theorem drag_increases (kappa h z1 z2 : ℝ) (hk : 0 < kappa) (hh : 0 < h) (hz1 : 0 < z1) (hz : z1 < z2) (hz2 : z2 < h) :
    Osu.ST.dragCoefficient kappa h z1 < Osu.ST.dragCoefficient kappa h z2 := by
  simp only [Osu.ST.dragCoefficient, Transc.log]
  have hz2' : 0 < z2 := lt_trans hz1 hz
  have l2 : 0 < Real.log (h / z2) := Real.log_pos (by rw [lt_div_iff₀ hz2']; linarith)
  have l12 : Real.log (h / z2) < Real.log (h / z1) := by
    apply Real.log_lt_log (div_pos hh hz2')
    exact div_lt_div_of_pos_left hh hz1 hz
  have r : kappa / Real.log (h / z1) < kappa / Real.log (h / z2) := div_lt_div_of_pos_left hk l2 l12
  have r0 : 0 < kappa / Real.log (h / z1) := div_pos hk (lt_trans l2 l12)
  nlinarith

end Osu.Charnock
