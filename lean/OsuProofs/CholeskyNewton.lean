import OsuProofs.Cholesky
import OsuProofs.StepEquivariant

/-! The linear solve of the MEM2 Newton step: what `solve_cholesky` returns for the constraint
Jacobian is the exact Newton step. -/
namespace Osu.Est

open Osu Osu.Rot Matrix

theorem jacobian_explicit (lam delta : List ℝ) (T : List (List ℝ)) :
    jacobian lam delta T =
      [[jacEntry lam delta T 0 0, jacEntry lam delta T 1 0, jacEntry lam delta T 2 0, jacEntry lam delta T 3 0],
       [jacEntry lam delta T 1 0, jacEntry lam delta T 1 1, jacEntry lam delta T 2 1, jacEntry lam delta T 3 1],
       [jacEntry lam delta T 2 0, jacEntry lam delta T 2 1, jacEntry lam delta T 2 2, jacEntry lam delta T 3 2],
       [jacEntry lam delta T 3 0, jacEntry lam delta T 3 1, jacEntry lam delta T 3 2, jacEntry lam delta T 3 3]] := rfl

/-- **the Cholesky solve of the Newton step is exact**: for any multipliers, grid and right-hand
side, a vector returned by `solve_cholesky` on the constraint Jacobian `J` satisfies `J x = g` -/
theorem cholSolve_jacobian_exact (lam delta : List ℝ) (T : List (List ℝ)) (g0 g1 g2 g3 : ℝ) (x : List ℝ)
    (h : cholSolve (jacobian lam delta T) [g0, g1, g2, g3] = some x) :
    x.length = 4 ∧ toMat (jacobian lam delta T) *ᵥ toVec x = toVec [g0, g1, g2, g3] := by
  rw [jacobian_explicit] at h ⊢
  obtain ⟨x0, x1, x2, x3, rfl, h0, h1, h2, h3⟩ := cholSolve4_solves _ _ _ _ _ _ _ _ _ _ _ _ _ _ x h
  refine ⟨rfl, ?_⟩
  funext i
  simp only [Matrix.mulVec, dotProduct, toMat, toVec, Fin.sum_univ_four]
  fin_cases i
  · simpa using h0
  · simpa using h1
  · simpa using h2
  · simpa using h3

end Osu.Est
