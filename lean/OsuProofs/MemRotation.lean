import OsuProofs.EstRotation
import Mathlib.Analysis.Complex.Basic
import Mathlib.Tactic.LinearCombination

/-! Rotation equivariance of MEM (Lygre & Krogstad) (C06). -/
namespace Osu.Est

open Real

/-- the model's complex numbers (pairs) as Mathlib complex numbers -/
def toC (p : ℝ × ℝ) : ℂ := ⟨p.1, p.2⟩

theorem toC_cmul (a b : ℝ × ℝ) : toC (cmul a b) = toC a * toC b := by
  apply Complex.ext <;> simp [toC, cmul]

theorem toC_csub (a b : ℝ × ℝ) : toC (csub a b) = toC a - toC b := by
  apply Complex.ext <;> simp [toC, csub]

theorem toC_conj (a : ℝ × ℝ) : toC (conj a) = (starRingEnd ℂ) (toC a) := by
  apply Complex.ext <;> simp [toC, conj]

theorem toC_cdivReal (a : ℝ × ℝ) (r : ℝ) : toC (cdivReal a r) = toC a / (r : ℂ) := by
  apply Complex.ext <;> simp [toC, cdivReal, Complex.div_ofReal_re, Complex.div_ofReal_im]

theorem cnormSq_eq (a : ℝ × ℝ) : cnormSq a = Complex.normSq (toC a) := by
  simp [cnormSq, toC, Complex.normSq]

theorem toC_one : toC ((1 : ℝ), (0 : ℝ)) = 1 := by apply Complex.ext <;> simp [toC]

/-- the unit complex number `e^{iφ}` -/
noncomputable def unit (φ : ℝ) : ℂ := ⟨cos φ, sin φ⟩

theorem unit_mul_conj (φ : ℝ) : unit φ * (starRingEnd ℂ) (unit φ) = 1 := by
  apply Complex.ext
  · simp [unit]; nlinarith [Real.cos_sq_add_sin_sq φ]
  · simp [unit]; ring

theorem unit_two (φ : ℝ) : unit (2 * φ) = unit φ * unit φ := by
  apply Complex.ext
  · simp [unit, Real.cos_two_mul]; nlinarith [Real.cos_sq_add_sin_sq φ]
  · simp [unit, Real.sin_two_mul]; ring

theorem normSq_unit (φ : ℝ) : Complex.normSq (unit φ) = 1 := by
  simp [unit, Complex.normSq]; nlinarith [Real.cos_sq_add_sin_sq φ]

/-- `e^{-iθ} e^{iφ} = e^{-i(θ-φ)}` -/
theorem conj_unit_sub (θ φ : ℝ) : (starRingEnd ℂ) (unit (θ - φ)) = (starRingEnd ℂ) (unit θ) * unit φ := by
  apply Complex.ext
  · simp [unit, Real.cos_sub]
  · simp [unit, Real.sin_sub]; ring

/-- Φ1, Φ2 and the numerator as complex numbers -/
noncomputable def phi1C (c1 c2 : ℂ) : ℂ := (c1 - c2 * (starRingEnd ℂ) c1) / ((1 - Complex.normSq c1 : ℝ) : ℂ)
noncomputable def phi2C (c1 c2 : ℂ) : ℂ := c2 - phi1C c1 c2 * c1
noncomputable def numC (c1 c2 : ℂ) : ℂ := 1 - phi1C c1 c2 * (starRingEnd ℂ) c1 - phi2C c1 c2 * (starRingEnd ℂ) c2

theorem memCoeffs_toC (a1 b1 a2 b2 : ℝ) :
    toC (memCoeffs a1 b1 a2 b2).1 = phi1C ⟨a1, b1⟩ ⟨a2, b2⟩ ∧
    toC (memCoeffs a1 b1 a2 b2).2.1 = phi2C ⟨a1, b1⟩ ⟨a2, b2⟩ ∧
    (memCoeffs a1 b1 a2 b2).2.2 = (numC ⟨a1, b1⟩ ⟨a2, b2⟩).re := by
  have h1 : toC (memCoeffs a1 b1 a2 b2).1 = phi1C ⟨a1, b1⟩ ⟨a2, b2⟩ := by
    simp only [memCoeffs, phi1C, toC_cdivReal, toC_csub, toC_cmul, toC_conj, cnormSq_eq]
    rfl
  have h2 : toC (memCoeffs a1 b1 a2 b2).2.1 = phi2C ⟨a1, b1⟩ ⟨a2, b2⟩ := by
    have : (memCoeffs a1 b1 a2 b2).2.1 = csub (a2, b2) (cmul (memCoeffs a1 b1 a2 b2).1 (a1, b1)) := rfl
    rw [this, toC_csub, toC_cmul, h1]
    rfl
  refine ⟨h1, h2, ?_⟩
  have : (memCoeffs a1 b1 a2 b2).2.2 =
      (csub (csub (1, 0) (cmul (memCoeffs a1 b1 a2 b2).1 (conj (a1, b1)))) (cmul (memCoeffs a1 b1 a2 b2).2.1 (conj (a2, b2)))).1 := rfl
  rw [this]
  have hre : ∀ p : ℝ × ℝ, p.1 = (toC p).re := fun p => rfl
  rw [hre, toC_csub, toC_csub, toC_cmul, toC_cmul, toC_conj, toC_conj, h1, h2, toC_one]
  rfl

/-- rotation of the coefficients: `Φ1 ↦ Φ1 w`, `Φ2 ↦ Φ2 w²`, numerator unchanged (`|w| = 1`) -/
theorem coeffs_rot (c1 c2 w : ℂ) (hw : w * (starRingEnd ℂ) w = 1) :
    phi1C (c1 * w) (c2 * (w * w)) = phi1C c1 c2 * w ∧
    phi2C (c1 * w) (c2 * (w * w)) = phi2C c1 c2 * (w * w) ∧
    numC (c1 * w) (c2 * (w * w)) = numC c1 c2 := by
  have hn : Complex.normSq w = 1 := by
    have := Complex.mul_conj w
    rw [hw] at this
    exact_mod_cast this.symm
  have h1 : phi1C (c1 * w) (c2 * (w * w)) = phi1C c1 c2 * w := by
    simp only [phi1C, Complex.normSq_mul, hn, mul_one, map_mul]
    rw [div_mul_eq_mul_div]
    congr 1
    linear_combination (-(c2 * (starRingEnd ℂ) c1 * w)) * hw
  have h2 : phi2C (c1 * w) (c2 * (w * w)) = phi2C c1 c2 * (w * w) := by
    simp only [phi2C, h1]; ring
  refine ⟨h1, h2, ?_⟩
  simp only [numC, h1, h2, map_mul]
  linear_combination (-(phi1C c1 c2 * (starRingEnd ℂ) c1) - phi2C c1 c2 * (starRingEnd ℂ) c2 * (1 + w * (starRingEnd ℂ) w)) * hw

/-- the un-normalised MEM value at direction `θ` -/
noncomputable def memRawAt (a1 b1 a2 b2 θ : ℝ) : ℝ :=
  (memCoeffs a1 b1 a2 b2).2.2 /
    memDenom (memCoeffs a1 b1 a2 b2).1 (memCoeffs a1 b1 a2 b2).2.1 (cos θ) (sin θ) (cos (2 * θ)) (sin (2 * θ)) / π / 2

theorem memDenom_toC (p1 p2 : ℝ × ℝ) (θ : ℝ) :
    memDenom p1 p2 (cos θ) (sin θ) (cos (2 * θ)) (sin (2 * θ)) =
      Complex.normSq (1 - toC p1 * (starRingEnd ℂ) (unit θ) - toC p2 * (starRingEnd ℂ) (unit (2 * θ))) := by
  simp only [memDenom, cnormSq_eq, toC_csub, toC_cmul, toC_one]
  congr 3 <;> apply Complex.ext <;> simp [toC, unit]

/-- **MEM rotates with its input**: the (un-normalised) MEM value of moments rotated by `φ` at
direction `θ` is the value of the original moments at `θ − φ` -/
theorem memRawAt_rot (φ a1 b1 a2 b2 θ : ℝ) :
    memRawAt (rotMoments φ a1 b1 a2 b2).1 (rotMoments φ a1 b1 a2 b2).2.1 (rotMoments φ a1 b1 a2 b2).2.2.1
        (rotMoments φ a1 b1 a2 b2).2.2.2 θ = memRawAt a1 b1 a2 b2 (θ - φ) := by
  have hc1 : (⟨(rotMoments φ a1 b1 a2 b2).1, (rotMoments φ a1 b1 a2 b2).2.1⟩ : ℂ) = (⟨a1, b1⟩ : ℂ) * unit φ := by
    apply Complex.ext <;> simp [rotMoments, unit] <;> ring
  have hc2 : (⟨(rotMoments φ a1 b1 a2 b2).2.2.1, (rotMoments φ a1 b1 a2 b2).2.2.2⟩ : ℂ) = (⟨a2, b2⟩ : ℂ) * (unit φ * unit φ) := by
    rw [← unit_two]
    apply Complex.ext <;> simp [rotMoments, unit] <;> ring
  obtain ⟨r1, r2, r3⟩ := memCoeffs_toC (rotMoments φ a1 b1 a2 b2).1 (rotMoments φ a1 b1 a2 b2).2.1
    (rotMoments φ a1 b1 a2 b2).2.2.1 (rotMoments φ a1 b1 a2 b2).2.2.2
  obtain ⟨o1, o2, o3⟩ := memCoeffs_toC a1 b1 a2 b2
  obtain ⟨k1, k2, k3⟩ := coeffs_rot ⟨a1, b1⟩ ⟨a2, b2⟩ (unit φ) (unit_mul_conj φ)
  rw [hc1, hc2] at r1 r2 r3
  simp only [memRawAt]
  rw [r3, k3, ← o3, memDenom_toC, memDenom_toC, r1, r2, k1, k2, o1, o2]
  congr 3
  rw [show 2 * (θ - φ) = 2 * θ - 2 * φ by ring, conj_unit_sub, conj_unit_sub, unit_two φ]
  ring

theorem memRawAt_periodic (a1 b1 a2 b2 θ : ℝ) (q : ℕ) :
    memRawAt a1 b1 a2 b2 (θ - q * (2 * π)) = memRawAt a1 b1 a2 b2 θ := by
  simp only [memRawAt]
  have h2 : 2 * (θ - q * (2 * π)) = 2 * θ - ((2 * q : ℕ) : ℝ) * (2 * π) := by push_cast; ring
  rw [h2, Real.cos_sub_nat_mul_two_pi, Real.sin_sub_nat_mul_two_pi, Real.cos_sub_nat_mul_two_pi, Real.sin_sub_nat_mul_two_pi]

/-- MEM on the uniform grid, normalised by its own discrete integral -/
noncomputable def memF {N : ℕ} (raw : Fin N → ℝ) : Fin N → ℝ :=
  fun j => raw j / ((∑ j', raw j') * π * 2 / (N : ℝ))

theorem memF_rot {N : ℕ} [NeZero N] (k : Fin N) (raw : Fin N → ℝ) :
    memF (Osu.Rot.rotE k raw) = Osu.Rot.rotE k (memF raw) := by
  funext j
  simp only [memF, Osu.Rot.rotE]
  have : ∑ j', raw (j' - k) = ∑ j', raw j' :=
    Fintype.sum_equiv (Equiv.subRight k) _ _ (fun j' => by simp)
  rw [this]

/-- **MEM rotates with its input on every uniform grid**: moments rotated by `k` bins give the MEM
distribution rotated by `k` bins (every `N`, `θ0`, `k`) -/
theorem mem_grid_rot {N : ℕ} [NeZero N] (θ0 : ℝ) (k : Fin N) (a1 b1 a2 b2 : ℝ) :
    let φ := (k : ℕ) * Osu.Rot.dθ N * π / 180
    let m' := rotMoments φ a1 b1 a2 b2
    memF (fun j : Fin N => memRawAt m'.1 m'.2.1 m'.2.2.1 m'.2.2.2 (Osu.Rot.theta θ0 j * π / 180))
      = Osu.Rot.rotE k (memF (fun j : Fin N => memRawAt a1 b1 a2 b2 (Osu.Rot.theta θ0 j * π / 180))) := by
  intro φ m'
  rw [← memF_rot]
  congr 1
  funext j
  simp only [Osu.Rot.rotE]
  rw [memRawAt_rot]
  obtain ⟨q, hq⟩ := Osu.Rot.theta_add θ0 (j - k) k
  rw [sub_add_cancel] at hq
  have hθ : Osu.Rot.theta θ0 j * π / 180 - φ = Osu.Rot.theta θ0 (j - k) * π / 180 - (q : ℕ) * (2 * π) := by
    simp only [φ]; rw [hq]; ring
  rw [hθ, memRawAt_periodic]

/-- the list model `mem` on a grid is `memF` of the raw values -/
theorem mem_bridge {N : ℕ} (a1 b1 a2 b2 : ℝ) (θ : Fin N → ℝ) :
    mem a1 b1 a2 b2 (List.ofFn fun j => (cos (θ j), sin (θ j), cos (2 * θ j), sin (2 * θ j)))
      = List.ofFn (memF fun j => memRawAt a1 b1 a2 b2 (θ j)) := by
  have hraw : (List.ofFn fun j : Fin N => (cos (θ j), sin (θ j), cos (2 * θ j), sin (2 * θ j))).map
      (fun t => (memCoeffs a1 b1 a2 b2).2.2 /
        memDenom (memCoeffs a1 b1 a2 b2).1 (memCoeffs a1 b1 a2 b2).2.1 t.1 t.2.1 t.2.2.1 t.2.2.2 / Transc.pi / two)
      = List.ofFn (fun j => memRawAt a1 b1 a2 b2 (θ j)) := by
    rw [List.map_ofFn]
    congr 1
  show (let (phi1, phi2, num) := memCoeffs a1 b1 a2 b2; _) = _
  simp only [mem] at *
  show List.map _ (List.map _ _) = _
  rw [hraw, est_lsum_ofFn, List.map_ofFn]
  congr 1
  funext j
  simp [memF, Transc.pi, two, Function.comp]

end Osu.Est
