import OsuProofs.Estimators
import Mathlib.Analysis.Calculus.Deriv.Inv
import Mathlib.Analysis.SpecialFunctions.ExpDeriv
import Mathlib.Tactic.IntervalCases

/-! Closed forms of the MEM2 constraint function and Jacobian as weighted sums over the
(direction column, increment) records, and the derivative of the former. -/
namespace Osu.Est

open Real

/-- `λ · col` -/
noncomputable def ipOf (lam col : List ℝ) : ℝ := lsum (List.zipWith (· * ·) lam col)

/-- `Σ_r g(col_r) Δ_r exp(-λ·col_r)` over records `r = (col, Δ)` -/
noncomputable def wsum (g : List ℝ → ℝ) (lam : List ℝ) (recs : List (List ℝ × ℝ)) : ℝ :=
  lsum (recs.map fun r => g r.1 * r.2 * Real.exp (-(ipOf lam r.1)))

theorem innerProduct_cons (lam col : List ℝ) (T : List (List ℝ)) :
    innerProduct lam (col :: T) = ipOf lam col :: innerProduct lam T := rfl

/-- sums against a (scaled) exponential shape are `k · wsum` -/
theorem lsum_shape (g : List ℝ → ℝ) (k : ℝ) (lam : List ℝ) (T : List (List ℝ)) (delta : List ℝ) :
    lsum (List.zipWith (fun (col : List ℝ) (sd : ℝ × ℝ) => g col * sd.1 * sd.2) T
      (((innerProduct lam T).map fun x => Real.exp (-x) * k).zip delta)) = k * wsum g lam (T.zip delta) := by
  induction T generalizing delta with
  | nil => simp [lsum, wsum]
  | cons col T ih =>
    cases delta with
    | nil => simp [lsum, wsum, innerProduct_cons]
    | cons d delta =>
      simp only [innerProduct_cons, List.map_cons, List.zip_cons_cons, List.zipWith_cons_cons, lsum, ih delta, wsum]
      ring

theorem lsum_shape_z (k : ℝ) (lam : List ℝ) (T : List (List ℝ)) (delta : List ℝ) :
    lsum (List.zipWith (· * ·) ((innerProduct lam T).map fun x => Real.exp (-x) * k) delta)
      = k * wsum (fun _ => 1) lam (T.zip delta) := by
  induction T generalizing delta with
  | nil => simp [lsum, wsum, innerProduct]
  | cons col T ih =>
    cases delta with
    | nil => simp [lsum, wsum, innerProduct_cons]
    | cons d delta =>
      simp only [innerProduct_cons, List.map_cons, List.zip_cons_cons, List.zipWith_cons_cons, lsum, ih delta, wsum]
      ring

theorem shapeOf_eq (ip : List ℝ) (c : ℝ) : shapeOf ip c = ip.map fun x => Real.exp (-x) * Real.exp c := by
  simp only [shapeOf]
  apply List.map_congr_left
  intro x _
  rw [← Real.exp_add]; congr 1; ring

theorem zipWith_lin {β γ : Type} (f g : β → γ → ℝ) (c1 c2 : ℝ) (X : List β) (Y : List γ) :
    lsum (List.zipWith (fun a b => c1 * f a b + c2 * g a b) X Y)
      = c1 * lsum (List.zipWith f X Y) + c2 * lsum (List.zipWith g X Y) := by
  induction X generalizing Y with
  | nil => simp [lsum]
  | cons a X ih =>
    cases Y with
    | nil => simp [lsum]
    | cons b Y => simp only [List.zipWith_cons_cons, lsum, ih Y]; ring

theorem wsum_pos (lam : List ℝ) (recs : List (List ℝ × ℝ)) (h : ∀ r ∈ recs, 0 < r.2) (hne : recs ≠ []) :
    0 < wsum (fun _ => 1) lam recs := by
  apply lsum_pos_of_pos
  · intro x hx
    simp only [List.mem_map] at hx
    obtain ⟨r, hr, rfl⟩ := hx
    have := h r hr
    have := Real.exp_pos (-(ipOf lam r.1))
    positivity
  · simpa using hne

/-- reconstructed moment `m` of `dist lam` -/
noncomputable def recon (lam delta : List ℝ) (T : List (List ℝ)) (m : ℕ) : ℝ :=
  lsum (List.zipWith (fun (col : List ℝ) (dd : ℝ × ℝ) => col.getD m 0 * dd.1 * dd.2) T ((dist lam delta T).zip delta))

theorem constraints_eq (lam moments delta : List ℝ) (T : List (List ℝ)) :
    constraints lam moments delta T = (List.range 4).map fun m => moments.getD m 0 - recon lam delta T m := rfl

/-- closed form: `recon m = A_m / Z` -/
theorem recon_closed (lam delta : List ℝ) (T : List (List ℝ)) (m : ℕ) :
    recon lam delta T m =
      wsum (fun col => col.getD m 0) lam (T.zip delta) / wsum (fun _ => 1) lam (T.zip delta) := by
  simp only [recon]
  rw [dist_eq_distWith, distWith_shift _ _ 0 _]
  simp only [distWith, shapeOf_eq, Real.exp_zero, List.map_map]
  have h1 := lsum_shape_z 1 lam T delta
  rw [one_mul] at h1
  rw [h1]
  have h2 := lsum_shape (fun col => col.getD m 0) (1 / wsum (fun _ => 1) lam (T.zip delta)) lam T delta
  have : ((fun x => x * (1 / wsum (fun _ => 1) lam (T.zip delta))) ∘ fun x => Real.exp (-x) * 1)
      = fun x => Real.exp (-x) * (1 / wsum (fun _ => 1) lam (T.zip delta)) := by
    funext x; simp [Function.comp]
  rw [this, h2]
  ring

/-- the covariance form of the Jacobian entry -/
noncomputable def covEntry (lam : List ℝ) (recs : List (List ℝ × ℝ)) (m n : ℕ) : ℝ :=
  wsum (fun col => col.getD m 0 * col.getD n 0) lam recs / wsum (fun _ => 1) lam recs
    - wsum (fun col => col.getD m 0) lam recs * wsum (fun col => col.getD n 0) lam recs
        / (wsum (fun _ => 1) lam recs) ^ 2

theorem covEntry_symm (lam : List ℝ) (recs : List (List ℝ × ℝ)) (m n : ℕ) :
    covEntry lam recs m n = covEntry lam recs n m := by
  simp only [covEntry]
  have : (fun col : List ℝ => col.getD m 0 * col.getD n 0) = fun col => col.getD n 0 * col.getD m 0 := by
    funext col; ring
  rw [this]; ring


/-- one entry of `mem2_jacobian` as the code computes it (copy of the `entry` of the model) -/
noncomputable def jacEntry (lam delta : List ℝ) (T : List (List ℝ)) (mm nn : ℕ) : ℝ :=
  let ip0 := innerProduct lam T
  let m := lmin ip0
  let shape := ip0.map fun x => Transc.exp (-(x - m))
  let normalization := 1 / lsum (List.zipWith (· * ·) shape delta)
  let nd : List ℝ := ((List.range 4).map fun mm =>
    normalization * lsum (List.zipWith (fun (col : List ℝ) (sd : ℝ × ℝ) => col.getD mm 0 * sd.1 * sd.2) T (shape.zip delta)) * normalization)
  Neg.neg (lsum (List.zipWith (fun (col : List ℝ) (sd : ℝ × ℝ) =>
        col.getD mm 0 * sd.2 * (normalization * (-(col.getD nn 0) * sd.1) + sd.1 * nd.getD nn 0)) T (shape.zip delta)))

theorem jacobian_getD (lam delta : List ℝ) (T : List (List ℝ)) (m n : ℕ) (hm : m < 4) (hn : n < 4) :
    ((jacobian lam delta T).getD m []).getD n 0 =
      if n ≤ m then jacEntry lam delta T m n else jacEntry lam delta T n m := by
  interval_cases m <;> interval_cases n <;> rfl

theorem jacEntry_closed (lam delta : List ℝ) (T : List (List ℝ)) (m n : ℕ) (hn : n < 4)
    (hδ : ∀ d ∈ delta, 0 < d) (hT : T ≠ []) (hd : delta ≠ []) :
    jacEntry lam delta T m n = covEntry lam (T.zip delta) m n := by
  have hrecs : ∀ r ∈ T.zip delta, 0 < r.2 := by
    intro r hr; exact hδ _ (List.of_mem_zip hr).2
  have hne : T.zip delta ≠ [] := by
    cases T with
    | nil => exact absurd rfl hT
    | cons a T => cases delta with
      | nil => exact absurd rfl hd
      | cons b d => simp
  have hZ := wsum_pos lam (T.zip delta) hrecs hne
  set Z := wsum (fun _ => 1) lam (T.zip delta) with hZdef
  have hsh : ((innerProduct lam T).map fun x => Transc.exp (-(x - lmin (innerProduct lam T))))
      = (innerProduct lam T).map fun x => Real.exp (-x) * Real.exp (lmin (innerProduct lam T)) := by
    have := shapeOf_eq (innerProduct lam T) (lmin (innerProduct lam T))
    simpa [shapeOf, Transc.exp] using this
  set k := Real.exp (lmin (innerProduct lam T)) with hk
  have hkpos : 0 < k := Real.exp_pos _
  simp only [jacEntry]
  rw [hsh]
  have hnd : ∀ nn, nn < 4 → ((List.range 4).map fun mm =>
      1 / lsum (List.zipWith (· * ·) ((innerProduct lam T).map fun x => Real.exp (-x) * k) delta) *
        lsum (List.zipWith (fun (col : List ℝ) (sd : ℝ × ℝ) => col.getD mm 0 * sd.1 * sd.2) T
          (((innerProduct lam T).map fun x => Real.exp (-x) * k).zip delta)) *
        (1 / lsum (List.zipWith (· * ·) ((innerProduct lam T).map fun x => Real.exp (-x) * k) delta))).getD nn 0
      = 1 / (k * Z) * (k * wsum (fun col => col.getD nn 0) lam (T.zip delta)) * (1 / (k * Z)) := by
    intro nn hnn
    rw [lsum_shape_z]
    interval_cases nn <;> simp [List.range, List.range.loop, lsum_shape, ← hZdef]
  rw [hnd n hn, lsum_shape_z]
  set An := wsum (fun col => col.getD n 0) lam (T.zip delta)
  have hint : (fun (col : List ℝ) (sd : ℝ × ℝ) =>
        col.getD m 0 * sd.2 * (1 / (k * Z) * (-(col.getD n 0) * sd.1) + sd.1 * (1 / (k * Z) * (k * An) * (1 / (k * Z)))))
      = fun col sd => (-(1 / (k * Z))) * ((col.getD m 0 * col.getD n 0) * sd.1 * sd.2)
          + (1 / (k * Z) * (k * An) * (1 / (k * Z))) * (col.getD m 0 * sd.1 * sd.2) := by
    funext col sd; ring
  rw [hint, zipWith_lin, lsum_shape (fun col => col.getD m 0 * col.getD n 0), lsum_shape (fun col => col.getD m 0)]
  simp only [covEntry, ← hZdef]
  have hZ0 : Z ≠ 0 := ne_of_gt hZ
  have hk0 : k ≠ 0 := ne_of_gt hkpos
  field_simp
  ring

/-! ### the derivative -/

/-- unit vector of the multiplier space -/
noncomputable def unitVec (n : ℕ) : List ℝ := (List.range 4).map fun i => if i = n then 1 else 0

theorem ipOf_unit (n : ℕ) (hn : n < 4) (col : List ℝ) : ipOf (unitVec n) col = col.getD n 0 := by
  rcases col with _ | ⟨a, _ | ⟨b, _ | ⟨c, _ | ⟨d, rest⟩⟩⟩⟩ <;> interval_cases n <;>
    simp [ipOf, unitVec, List.range, List.range.loop, lsum]

theorem ipOf_vadd (lam e col : List ℝ) (t : ℝ) (h : lam.length = e.length) :
    ipOf (vadd lam (vscale t e)) col = ipOf lam col + t * ipOf e col := by
  induction lam generalizing e col with
  | nil =>
    cases e with
    | nil => simp [ipOf, vadd, vscale, lsum]
    | cons _ _ => simp at h
  | cons a lam ih =>
    cases e with
    | nil => simp at h
    | cons b e =>
      cases col with
      | nil => simp [ipOf, vadd, vscale, lsum]
      | cons c col =>
        have := ih e col (by simpa using h)
        simp only [ipOf, vadd, vscale, List.map_cons, List.zipWith_cons_cons, lsum] at this ⊢
        rw [this]; ring

theorem hasDerivAt_lsum_exp {β : Type} (c a b : β → ℝ) (l : List β) :
    HasDerivAt (fun t : ℝ => lsum (l.map fun r => c r * Real.exp (-(a r + t * b r))))
      (-(lsum (l.map fun r => c r * b r * Real.exp (-(a r))))) 0 := by
  induction l with
  | nil => simpa [lsum] using hasDerivAt_const (0 : ℝ) (0 : ℝ)
  | cons r l ih =>
    simp only [List.map_cons, lsum]
    have h1 : HasDerivAt (fun t : ℝ => c r * Real.exp (-(a r + t * b r))) (-(c r * b r * Real.exp (-(a r)))) 0 := by
      have h0 : HasDerivAt (fun t : ℝ => -(a r + t * b r)) (-(b r)) 0 := by
        have h := (((hasDerivAt_id (0 : ℝ)).mul_const (b r)).const_add (a r)).neg
        have h2 : HasDerivAt (fun t : ℝ => -(a r + t * b r)) (-(1 * b r)) 0 := h
        exact h2.congr_deriv (by ring)
      refine ((h0.exp).const_mul (c r)).congr_deriv ?_
      simp; ring
    refine (h1.add ih).congr_deriv ?_
    ring

theorem hasDerivAt_wsum (g : List ℝ → ℝ) (lam e : List ℝ) (h : lam.length = e.length) (recs : List (List ℝ × ℝ)) :
    HasDerivAt (fun t : ℝ => wsum g (vadd lam (vscale t e)) recs)
      (-(wsum (fun col => g col * ipOf e col) lam recs)) 0 := by
  have hf : (fun t : ℝ => wsum g (vadd lam (vscale t e)) recs)
      = fun t => lsum (recs.map fun r => (g r.1 * r.2) * Real.exp (-(ipOf lam r.1 + t * ipOf e r.1))) := by
    funext t
    simp only [wsum]
    congr 1
    apply List.map_congr_left
    intro r _
    rw [ipOf_vadd _ _ _ _ h]
  rw [hf]
  have := hasDerivAt_lsum_exp (fun r : List ℝ × ℝ => g r.1 * r.2) (fun r => ipOf lam r.1) (fun r => ipOf e r.1) recs
  convert this using 2
  simp only [wsum]
  congr 1
  apply List.map_congr_left
  intro r _
  ring

theorem vadd_zero_scale (lam e : List ℝ) (h : lam.length = e.length) : vadd lam (vscale 0 e) = lam := by
  induction lam generalizing e with
  | nil => simp [vadd]
  | cons a lam ih =>
    cases e with
    | nil => simp at h
    | cons b e =>
      have := ih e (by simpa using h)
      simp only [vadd, vscale, List.map_cons, List.zipWith_cons_cons] at this ⊢
      rw [this]; simp

/-- the derivative of the reconstructed moment `m` along multiplier `n` is minus the covariance -/
theorem hasDerivAt_recon (lam delta : List ℝ) (T : List (List ℝ)) (m n : ℕ) (hn : n < 4) (hl : lam.length = 4)
    (hδ : ∀ d ∈ delta, 0 < d) (hT : T ≠ []) (hd : delta ≠ []) :
    HasDerivAt (fun t : ℝ => recon (vadd lam (vscale t (unitVec n))) delta T m)
      (-(covEntry lam (T.zip delta) m n)) 0 := by
  have hrecs : ∀ r ∈ T.zip delta, 0 < r.2 := by
    intro r hr; exact hδ _ (List.of_mem_zip hr).2
  have hne : T.zip delta ≠ [] := by
    cases T with
    | nil => exact absurd rfl hT
    | cons a T => cases delta with
      | nil => exact absurd rfl hd
      | cons b d => simp
  have hlen : lam.length = (unitVec n).length := by simp [unitVec, hl]
  have hf : (fun t : ℝ => recon (vadd lam (vscale t (unitVec n))) delta T m)
      = fun t => wsum (fun col => col.getD m 0) (vadd lam (vscale t (unitVec n))) (T.zip delta)
          / wsum (fun _ => 1) (vadd lam (vscale t (unitVec n))) (T.zip delta) := by
    funext t; exact recon_closed _ _ _ _
  rw [hf]
  have hA := hasDerivAt_wsum (fun col => col.getD m 0) lam (unitVec n) hlen (T.zip delta)
  have hZ := hasDerivAt_wsum (fun _ => 1) lam (unitVec n) hlen (T.zip delta)
  have hZ0 : wsum (fun _ => 1) (vadd lam (vscale 0 (unitVec n))) (T.zip delta) ≠ 0 :=
    ne_of_gt (wsum_pos _ _ hrecs hne)
  refine (hA.fun_div hZ hZ0).congr_deriv ?_
  rw [vadd_zero_scale _ _ hlen] at hZ0 ⊢
  simp only [covEntry, ipOf_unit n hn, one_mul]
  field_simp
  ring

end Osu.Est
