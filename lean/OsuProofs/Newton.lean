import OsuProofs.RealTransc
import OsuModel.Solvers
import Mathlib.Tactic.Linarith
import Mathlib.Tactic.Ring
import Mathlib.Topology.Order.IntermediateValue
import Mathlib.Topology.Algebra.Order.Field

/-! Invariants of the Newton/secant/bisection hybrid (`numba_newton_raphson`) at ℝ. -/
namespace Osu.Solv

/-- what is known about the bracket bookkeeping in every reachable state -/
structure Inv (f : ℝ → ℝ) (s : NRState ℝ) : Prop where
  flo : s.flo = f s.lo
  fhi : s.fhi = f s.hi
  order : s.lo ≤ s.hi
  sign : s.bounded = true → s.flo * s.fhi < 0
  inside : s.bounded = true → s.lo ≤ s.it2 ∧ s.it2 ≤ s.hi

theorem absv_nonneg (a : ℝ) : 0 ≤ absv a := by
  simp only [absv]; split <;> linarith

theorem half_eq : (half : ℝ) = 1 / 2 := by simp [half, two]

theorem inv_init (f : ℝ → ℝ) (guess : ℝ) : Inv f (nrInit f guess) := by
  have h := absv_nonneg guess
  constructor
  · rfl
  · rfl
  · simp only [nrInit, half_eq]; linarith
  · intro hb; simpa [nrInit] using hb
  · intro _; simp only [nrInit, half_eq]; constructor <;> linarith

/-- the bracket update keeps the recorded values equal to `f` at the bracket ends, keeps the
bracket ordered and the newest iterate inside it -/
theorem updateBracket_spec (f : ℝ → ℝ) (s : NRState ℝ) (x : ℝ) (h : Inv f s) (hx : s.it2 = x) :
    let s' := updateBracket s x (f x)
    s'.flo = f s'.lo ∧ s'.fhi = f s'.hi ∧ s'.lo ≤ s'.hi ∧ s'.lo ≤ x ∧ x ≤ s'.hi ∧
      s'.it2 = s.it2 ∧ s'.it1 = s.it1 ∧ s'.it0 = s.it0 ∧ s'.fe1 = s.fe1 ∧ s'.fe2 = s.fe2 := by
  have hfl := h.flo; have hfh := h.fhi; have ho := h.order
  simp only [updateBracket]
  split
  · rename_i h1; exact ⟨rfl, hfh, by simp; linarith, le_refl _, by simp; linarith, rfl, rfl, rfl, rfl, rfl⟩
  · split
    · rename_i h1 h2; exact ⟨hfl, rfl, by simp; linarith, by simp; linarith, le_refl _, rfl, rfl, rfl, rfl, rfl⟩
    · rename_i h1 h2
      rw [not_lt] at h1 h2
      split
      · exact ⟨hfl, rfl, h1, h1, le_refl _, rfl, rfl, rfl, rfl, rfl⟩
      · split
        · exact ⟨rfl, hfh, h2, le_refl _, h2, rfl, rfl, rfl, rfl, rfl⟩
        · exact ⟨hfl, hfh, ho, h1, h2, rfl, rfl, rfl, rfl, rfl⟩

/-- clipping to an ordered bracket that contains the current iterate lands inside the bracket -/
theorem clip_inside (cfg : NRConfig ℝ) (s : NRState ℝ) (x : ℝ) (hb : s.bounded = true)
    (h1 : s.lo ≤ s.it2) (h2 : s.it2 ≤ s.hi) :
    s.lo ≤ clip cfg s x ∧ clip cfg s x ≤ s.hi := by
  simp only [clip, hb, if_true, half_eq]
  by_cases hx : x < s.lo
  · simp only [hx, if_true]
    have hm : (s.lo - s.it2) * (1 / 2) + s.it2 ≤ s.hi := by linarith
    rw [if_neg (not_lt.2 hm)]
    constructor <;> linarith
  · simp only [hx, if_false]
    rw [not_lt] at hx
    by_cases hy : s.hi < x
    · simp only [hy, if_true]; constructor <;> linarith
    · simp only [hy, if_false]; exact ⟨hx, not_lt.1 hy⟩

section generic
variable {α : Type} [Add α] [Sub α] [Mul α] [Div α] [Neg α] [Zero α] [One α] [NatCast α]
  [LT α] [DecidableLT α] [LE α] [DecidableLE α] [BEq α]

/-- the first half of the loop body: evaluate, and propose the next iterate (Aitken step, or
bracket update + Newton/secant/bisection update) -/
def candidate (f : α → α) (cfg : NRConfig α) (n : Nat) (s : NRState α) : Option (NRState α × α) :=
  let fx := f s.it2
  let s1 : NRState α := { s with fe1 := s.fe2, fe2 := fx }
  if cfg.aitken && n % 3 == 0 then
    let num := s1.it2 - s1.it1
    let den := s1.it1 - s1.it0
    match pdiv num den with
    | none => none
    | some ratio =>
      match pdiv ratio (1 - ratio) with
      | none => none
      | some q => some (s1, s1.it2 + q * num)
  else
    let s2 := updateBracket s1 s1.it2 fx
    let s3 : NRState α := { s2 with bounded := decide (s2.flo * s2.fhi < 0) }
    let deriv : Option α :=
      if s3.bounded && decide (1 < n) then pdiv (s3.fe2 - s3.fe1) (s3.it2 - s3.it1)
      else
        let h := if cfg.relativeStep then s3.it2 * cfg.numStep else cfg.numStep
        pdiv (f (s3.it2 + h) - s3.fe2) h
    match deriv with
    | none => none
    | some d =>
      let update : Option α :=
        if d == 0 then (if s3.bounded then some ((s3.hi - s3.lo) / two) else none)
        else some (-s3.fe2 / d)
      match update with
      | none => none
      | some u => some (s3, s3.it2 + u * cfg.underRelax)

/-- the second half: clip, roll the iterates, test the step size -/
def finishStep (cfg : NRConfig α) (n : Nat) (s4 : NRState α) (x : α) : NRStep α :=
  let x' := clip cfg s4 x
  let s5 : NRState α := { s4 with it0 := s4.it1, it1 := s4.it2, it2 := x' }
  let scale := maxv (absv s5.it1) cfg.atol
  let ad := absv (s5.it2 - s5.it1)
  if (cfg.aitken && n % 3 == 0) = false ∧ ad < cfg.atol ∧ ad / scale < cfg.rtol then .converged s5.it2 else .continue s5

theorem nrStep_eq' (f : α → α) (cfg : NRConfig α) (n : Nat) (s : NRState α) :
    nrStep f cfg n s = match candidate f cfg n s with
      | none => .raised
      | some (s4, x) => finishStep cfg n s4 x := rfl

end generic

/-- the proposal keeps the invariant, the current iterate, and puts it inside the bracket -/
theorem candidate_spec (f : ℝ → ℝ) (cfg : NRConfig ℝ) (n : ℕ) (s s4 : NRState ℝ) (x : ℝ) (h : Inv f s)
    (hc : candidate f cfg n s = some (s4, x)) : Inv f s4 ∧ s4.it2 = s.it2 := by
  unfold candidate at hc
  simp only at hc
  split at hc
  · -- Aitken step: bracket untouched
    split at hc
    · exact absurd hc (by simp)
    · split at hc
      · exact absurd hc (by simp)
      · simp only [Option.some.injEq, Prod.mk.injEq] at hc
        obtain ⟨rfl, _⟩ := hc
        exact ⟨⟨h.flo, h.fhi, h.order, h.sign, h.inside⟩, rfl⟩
  · have hu := updateBracket_spec f { s with fe1 := s.fe2, fe2 := f s.it2 } s.it2
      ⟨h.flo, h.fhi, h.order, h.sign, h.inside⟩ rfl
    simp only at hu
    obtain ⟨u1, u2, u3, u4, u5, u6, _, _, _, _⟩ := hu
    split at hc
    · exact absurd hc (by simp)
    · split at hc
      · exact absurd hc (by simp)
      · simp only [Option.some.injEq, Prod.mk.injEq] at hc
        obtain ⟨rfl, _⟩ := hc
        refine ⟨⟨u1, u2, u3, ?_, ?_⟩, u6⟩
        · intro hb; simpa using hb
        · intro _; exact ⟨by simpa [u6] using u4, by simpa [u6] using u5⟩

theorem finishStep_continue (f : ℝ → ℝ) (cfg : NRConfig ℝ) (n : ℕ) (s4 s' : NRState ℝ) (x : ℝ) (h : Inv f s4)
    (hs : finishStep cfg n s4 x = .continue s') : Inv f s' := by
  simp only [finishStep] at hs
  split at hs
  · exact absurd hs (by simp)
  · simp only [NRStep.continue.injEq] at hs
    subst hs
    refine ⟨h.flo, h.fhi, h.order, h.sign, ?_⟩
    intro hb
    have hin := h.inside hb
    exact clip_inside cfg s4 x hb hin.1 hin.2

/-- a value returned through the convergence test: it is the clipped proposal, closer than the
tolerance to the previous iterate, and — when the root is bracketed — inside a bracket at whose
ends the function has opposite signs -/
theorem finishStep_converged (f : ℝ → ℝ) (cfg : NRConfig ℝ) (n : ℕ) (s4 : NRState ℝ) (x r : ℝ) (h : Inv f s4)
    (hs : finishStep cfg n s4 x = .converged r) :
    absv (r - s4.it2) < cfg.atol ∧ absv (r - s4.it2) / maxv (absv s4.it2) cfg.atol < cfg.rtol ∧
    (s4.bounded = true → f s4.lo * f s4.hi < 0 ∧ s4.lo ≤ r ∧ r ≤ s4.hi) := by
  simp only [finishStep] at hs
  split at hs
  · rename_i hc
    simp only [NRStep.converged.injEq] at hs
    subst hs
    refine ⟨hc.2.1, hc.2.2, ?_⟩
    intro hb
    have hin := h.inside hb
    have := h.sign hb
    rw [h.flo, h.fhi] at this
    exact ⟨this, clip_inside cfg s4 x hb hin.1 hin.2⟩
  · exact absurd hs (by simp)

/-- one pass through the loop body preserves the invariant -/
theorem nrStep_inv (f : ℝ → ℝ) (cfg : NRConfig ℝ) (n : ℕ) (s s' : NRState ℝ) (h : Inv f s)
    (hs : nrStep f cfg n s = .continue s') : Inv f s' := by
  rw [nrStep_eq'] at hs
  split at hs
  · exact absurd hs (by simp)
  · rename_i s4 x hc
    exact finishStep_continue f cfg n s4 s' x (candidate_spec f cfg n s s4 x h hc).1 hs

/-- certificate carried by every value the solver returns through its convergence test -/
def Certified (f : ℝ → ℝ) (cfg : NRConfig ℝ) (r : ℝ) : Prop :=
  ∃ prev lo hi : ℝ, ∃ bounded : Bool,
    absv (r - prev) < cfg.atol ∧ absv (r - prev) / maxv (absv prev) cfg.atol < cfg.rtol ∧
    (bounded = true → f lo * f hi < 0 ∧ lo ≤ r ∧ r ≤ hi ∧ lo ≤ prev ∧ prev ≤ hi)

theorem nrLoop_certified (f : ℝ → ℝ) (cfg : NRConfig ℝ) (hE : cfg.errorOnMaxIter = true) (fuel n : ℕ) (s : NRState ℝ)
    (h : Inv f s) (r : ℝ) (hr : nrLoop f cfg fuel n s = some r) : Certified f cfg r := by
  induction fuel generalizing n s with
  | zero => simp [nrLoop, hE] at hr
  | succ k ih =>
    simp only [nrLoop] at hr
    split at hr
    · exact absurd hr (by simp)
    · rename_i x hstep
      simp only [Option.some.injEq] at hr
      subst hr
      rw [nrStep_eq'] at hstep
      split at hstep
      · exact absurd hstep (by simp)
      · rename_i s4 y hc
        obtain ⟨h4, hit⟩ := candidate_spec f cfg n s s4 y h hc
        obtain ⟨c1, c2, c3⟩ := finishStep_converged f cfg n s4 y x h4 hstep
        refine ⟨s4.it2, s4.lo, s4.hi, s4.bounded, c1, c2, ?_⟩
        intro hb
        obtain ⟨d1, d2, d3⟩ := c3 hb
        exact ⟨d1, d2, d3, (h4.inside hb).1, (h4.inside hb).2⟩
    · rename_i s' hstep
      exact ih (n + 1) s' (nrStep_inv f cfg n s s' h hstep) hr

theorem newtonRaphson_certified (f : ℝ → ℝ) (cfg : NRConfig ℝ) (hE : cfg.errorOnMaxIter = true) (guess r : ℝ)
    (hr : newtonRaphson f cfg guess = some r) : Certified f cfg r :=
  nrLoop_certified f cfg hE _ _ _ (inv_init f guess) r hr

/-! ### the value returned was reached by a regular step -/

theorem updateBracket_keeps (s : NRState ℝ) (x fx : ℝ) :
    (updateBracket s x fx).it2 = s.it2 ∧ (updateBracket s x fx).fe2 = s.fe2 := by
  simp only [updateBracket]
  split
  · exact ⟨rfl, rfl⟩
  · split
    · exact ⟨rfl, rfl⟩
    · split
      · exact ⟨rfl, rfl⟩
      · split <;> exact ⟨rfl, rfl⟩


/-- a regular proposal: the current iterate plus the under-relaxed Newton/secant update
`-f(x)/d` with a non-zero slope `d`, or half the bracket when the slope vanished -/
def RegularProposal (f : ℝ → ℝ) (cfg : NRConfig ℝ) (s : NRState ℝ) (s4 : NRState ℝ) (x : ℝ) : Prop :=
  ∃ u : ℝ, x = s.it2 + u * cfg.underRelax ∧
    ((∃ d : ℝ, d ≠ 0 ∧ u = -f s.it2 / d) ∨ (s4.bounded = true ∧ u = (s4.hi - s4.lo) / two))

theorem candidate_regular (f : ℝ → ℝ) (cfg : NRConfig ℝ) (n : ℕ) (s s4 : NRState ℝ) (x : ℝ)
    (ha : (cfg.aitken && n % 3 == 0) = false) (hc : candidate f cfg n s = some (s4, x)) :
    RegularProposal f cfg s s4 x := by
  unfold candidate at hc
  simp only [ha] at hc
  simp only [Bool.false_eq_true, if_false] at hc
  split at hc
  · exact absurd hc (by simp)
  · rename_i d hd
    split at hc
    · exact absurd hc (by simp)
    · rename_i u hu
      simp only [Option.some.injEq, Prod.mk.injEq] at hc
      obtain ⟨rfl, rfl⟩ := hc
      have hk := updateBracket_keeps { s with fe1 := s.fe2, fe2 := f s.it2 } s.it2 (f s.it2)
      refine ⟨u, ?_, ?_⟩
      · simp only [hk.1]
      · simp only [hk.2] at hu
        split at hu
        · rename_i hd0
          split at hu
          · rename_i hb
            simp only [Option.some.injEq] at hu
            right; exact ⟨hb, hu.symm⟩
          · exact absurd hu (by simp)
        · rename_i hd0
          simp only [Option.some.injEq] at hu
          left
          refine ⟨d, by simpa using hd0, ?_⟩
          rw [← hu]

theorem finishStep_converged_regular (cfg : NRConfig ℝ) (n : ℕ) (s4 : NRState ℝ) (x r : ℝ)
    (hs : finishStep cfg n s4 x = .converged r) : (cfg.aitken && n % 3 == 0) = false ∧ r = clip cfg s4 x := by
  simp only [finishStep] at hs
  split at hs
  · rename_i hc
    simp only [NRStep.converged.injEq] at hs
    exact ⟨hc.1, hs.symm⟩
  · exact absurd hs (by simp)

/-- **every value the solver returns through its step test was reached by a regular step**, never
by an Aitken extrapolation: it is the (clipped) under-relaxed Newton/secant update from the
previous iterate, or a bisection step -/
def ReachedRegularly (f : ℝ → ℝ) (cfg : NRConfig ℝ) (r : ℝ) : Prop :=
  ∃ (n : ℕ) (s s4 : NRState ℝ) (x : ℝ), (cfg.aitken && n % 3 == 0) = false ∧
    RegularProposal f cfg s s4 x ∧ r = clip cfg s4 x

theorem nrLoop_regular (f : ℝ → ℝ) (cfg : NRConfig ℝ) (hE : cfg.errorOnMaxIter = true) (fuel n : ℕ) (s : NRState ℝ)
    (r : ℝ) (hr : nrLoop f cfg fuel n s = some r) : ReachedRegularly f cfg r := by
  induction fuel generalizing n s with
  | zero => simp [nrLoop, hE] at hr
  | succ k ih =>
    simp only [nrLoop] at hr
    split at hr
    · exact absurd hr (by simp)
    · rename_i x hstep
      simp only [Option.some.injEq] at hr
      subst hr
      rw [nrStep_eq'] at hstep
      split at hstep
      · exact absurd hstep (by simp)
      · rename_i s4 y hc
        obtain ⟨ha, hx⟩ := finishStep_converged_regular cfg n s4 y x hstep
        exact ⟨n, s, s4, y, ha, candidate_regular f cfg n s s4 y ha hc, hx⟩
    · rename_i s' hstep
      exact ih (n + 1) s' hr

theorem newtonRaphson_regular (f : ℝ → ℝ) (cfg : NRConfig ℝ) (hE : cfg.errorOnMaxIter = true) (guess r : ℝ)
    (hr : newtonRaphson f cfg guess = some r) : ReachedRegularly f cfg r :=
  nrLoop_regular f cfg hE _ _ _ r hr

/-- opposite signs at the ends of an interval on which `f` is continuous: a root inside -/
theorem root_of_sign_change (f : ℝ → ℝ) (lo hi : ℝ) (hle : lo ≤ hi) (hc : ContinuousOn f (Set.Icc lo hi))
    (hs : f lo * f hi < 0) : ∃ z ∈ Set.Icc lo hi, f z = 0 := by
  rcases mul_neg_iff.1 hs with ⟨h1, h2⟩ | ⟨h1, h2⟩
  · have := intermediate_value_Icc' hle hc
    exact this ⟨h2.le, h1.le⟩
  · have := intermediate_value_Icc hle hc
    exact this ⟨h1.le, h2.le⟩

/-! ### non-negativity under the hard lower bound 0 (the U10 solve) -/

structure NonNeg (s : NRState ℝ) : Prop where
  it2 : 0 ≤ s.it2
  lo : 0 ≤ s.lo
  order : s.lo ≤ s.hi

theorem nonneg_init (f : ℝ → ℝ) (guess : ℝ) (hg : 0 ≤ guess) : NonNeg (nrInit f guess) := by
  have ha : absv guess = guess := by simp [absv, not_lt.2 hg]
  constructor
  · exact hg
  · simp only [nrInit, half_eq, ha]; linarith
  · simp only [nrInit, half_eq, ha]; linarith

theorem updateBracket_nonneg (s : NRState ℝ) (fx : ℝ) (h : NonNeg s) :
    NonNeg (updateBracket s s.it2 fx) := by
  have := h.it2; have := h.lo; have := h.order
  simp only [updateBracket]
  split
  · rename_i h1; exact ⟨h.it2, h.it2, by simp; linarith⟩
  · split
    · rename_i h1 h2; exact ⟨h.it2, h.lo, by simp; linarith⟩
    · rename_i h1 h2
      rw [not_lt] at h1 h2
      split
      · exact ⟨h.it2, h.lo, h1⟩
      · split
        · exact ⟨h.it2, h.it2, h2⟩
        · exact ⟨h.it2, h.lo, h.order⟩

theorem candidate_nonneg (f : ℝ → ℝ) (cfg : NRConfig ℝ) (n : ℕ) (s s4 : NRState ℝ) (x : ℝ) (h : NonNeg s)
    (hc : candidate f cfg n s = some (s4, x)) : NonNeg s4 := by
  unfold candidate at hc
  simp only at hc
  split at hc
  · split at hc
    · exact absurd hc (by simp)
    · split at hc
      · exact absurd hc (by simp)
      · simp only [Option.some.injEq, Prod.mk.injEq] at hc
        obtain ⟨rfl, _⟩ := hc
        exact ⟨h.it2, h.lo, h.order⟩
  · have hu := updateBracket_nonneg { s with fe1 := s.fe2, fe2 := f s.it2 } (f s.it2) ⟨h.it2, h.lo, h.order⟩
    split at hc
    · exact absurd hc (by simp)
    · split at hc
      · exact absurd hc (by simp)
      · simp only [Option.some.injEq, Prod.mk.injEq] at hc
        obtain ⟨rfl, _⟩ := hc
        exact ⟨hu.it2, hu.lo, hu.order⟩

theorem clip_nonneg (cfg : NRConfig ℝ) (hlo : cfg.hardLo = some 0) (hhi : cfg.hardHi = none) (s : NRState ℝ) (x : ℝ)
    (h : NonNeg s) (hin : s.bounded = true → s.lo ≤ s.it2 ∧ s.it2 ≤ s.hi) : 0 ≤ clip cfg s x := by
  have := h.it2; have := h.lo; have := h.order
  by_cases hb : s.bounded = true
  · have := clip_inside cfg s x hb (hin hb).1 (hin hb).2
    linarith [this.1]
  · simp only [clip, hb, hlo, hhi, half_eq]
    simp only [Bool.false_eq_true, if_false]
    split <;> linarith

/-- with hard bounds `(0, ∞)` and a non-negative first guess the solver never returns a negative
value (`_u10_from_bulk_rate_point`: the estimate is missing or ≥ 0) -/
theorem nrLoop_nonneg (f : ℝ → ℝ) (cfg : NRConfig ℝ) (hlo : cfg.hardLo = some 0) (hhi : cfg.hardHi = none)
    (fuel n : ℕ) (s : NRState ℝ) (h : NonNeg s) (hI : Inv f s) (r : ℝ)
    (hr : nrLoop f cfg fuel n s = some r) : 0 ≤ r := by
  induction fuel generalizing n s with
  | zero =>
    simp only [nrLoop] at hr
    split at hr
    · exact absurd hr (by simp)
    · simp only [Option.some.injEq] at hr; rw [← hr]; exact h.it2
  | succ k ih =>
    simp only [nrLoop] at hr
    split at hr
    · exact absurd hr (by simp)
    · rename_i x hstep
      simp only [Option.some.injEq] at hr
      subst hr
      rw [nrStep_eq'] at hstep
      split at hstep
      · exact absurd hstep (by simp)
      · rename_i s4 y hc
        have h4 := candidate_nonneg f cfg n s s4 y h hc
        have hI4 := (candidate_spec f cfg n s s4 y hI hc).1
        simp only [finishStep] at hstep
        split at hstep
        · simp only [NRStep.converged.injEq] at hstep
          rw [← hstep]
          exact clip_nonneg cfg hlo hhi s4 y h4 hI4.inside
        · exact absurd hstep (by simp)
    · rename_i s' hstep
      have hI' := nrStep_inv f cfg n s s' hI hstep
      refine ih (n + 1) s' ?_ hI' hr
      rw [nrStep_eq'] at hstep
      split at hstep
      · exact absurd hstep (by simp)
      · rename_i s4 y hc
        have h4 := candidate_nonneg f cfg n s s4 y h hc
        have hI4 := (candidate_spec f cfg n s s4 y hI hc).1
        simp only [finishStep] at hstep
        split at hstep
        · exact absurd hstep (by simp)
        · simp only [NRStep.continue.injEq] at hstep
          subst hstep
          exact ⟨clip_nonneg cfg hlo hhi s4 y h4 hI4.inside, h4.lo, h4.order⟩

end Osu.Solv
