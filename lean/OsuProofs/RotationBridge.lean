import OsuProofs.RotationDir
import OsuProofs.Spectral

/-! From the list-based model (`dirInt`, `rowMoments`) to sums over `Fin N`. -/

namespace Osu.Rot

open Real Finset Osu.Spec

theorem zipWith_ofFn {β γ δ : Type} (f : β → γ → δ) :
    ∀ {n : ℕ} (a : Fin n → β) (b : Fin n → γ),
      List.zipWith f (List.ofFn a) (List.ofFn b) = List.ofFn (fun i => f (a i) (b i))
  | 0, _, _ => by simp
  | n + 1, a, b => by
    simp only [List.ofFn_succ, List.zipWith_cons_cons]
    rw [zipWith_ofFn f (fun i => a i.succ) (fun i => b i.succ)]

theorem lsum_ofFn : ∀ {n : ℕ} (a : Fin n → ℝ), lsum (List.ofFn a) = ∑ j, a j
  | 0, _ => by simp [lsum]
  | n + 1, a => by
    rw [List.ofFn_succ, Fin.sum_univ_succ]
    simp only [lsum]
    rw [lsum_ofFn (fun i => a i.succ)]

/-- directional integral of a row without missing bins, as a sum over `Fin n` -/
theorem dirInt_ofFn {n : ℕ} (s x : Fin n → ℝ) :
    dirInt (List.ofFn s) (List.ofFn fun j => some (x j)) = ∑ j, x j * s j := by
  simp only [dirInt]
  rw [zipWith_ofFn, lsum_ofFn]

/-- … weighted by a trig table -/
theorem dirInt_weighted_ofFn {n : ℕ} (s x c : Fin n → ℝ) :
    dirInt (List.ofFn s)
      (List.zipWith (fun v t => v.map (· * t)) (List.ofFn fun j => some (x j)) (List.ofFn c)) =
      ∑ j, x j * c j * s j := by
  simp only [dirInt]
  rw [zipWith_ofFn, zipWith_ofFn, lsum_ofFn]
  rfl

variable {N : ℕ} [NeZero N]

/-- the model's inputs for one frequency row on the uniform grid -/
noncomputable def gridSteps (N : ℕ) : List ℝ := List.ofFn (fun _ : Fin N => dθ N)
noncomputable def trigTable (f : ℝ → ℝ) (m : ℕ) (θ0 : ℝ) : List ℝ :=
  List.ofFn (fun j : Fin N => f (m * theta θ0 j))
def rowOf (E : Fin N → ℝ) : List (Option ℝ) := List.ofFn fun j => some (E j)

/-- `rowMoments` on the uniform grid, in closed form -/
theorem rowMoments_uniform (θ0 : ℝ) (E : Fin N → ℝ) :
    rowMoments (gridSteps N) (trigTable (N := N) cosd 1 θ0) (trigTable (N := N) sind 1 θ0)
        (trigTable (N := N) cosd 2 θ0) (trigTable (N := N) sind 2 θ0) (rowOf E) =
      (eSum E, divOpt (Acos 1 θ0 E) (eSum E), divOpt (Bsin 1 θ0 E) (eSum E),
        divOpt (Acos 2 θ0 E) (eSum E), divOpt (Bsin 2 θ0 E) (eSum E)) := by
  simp only [rowMoments, gridSteps, trigTable, rowOf, dirInt_ofFn, dirInt_weighted_ofFn, eSum, Acos, Bsin]

end Osu.Rot
