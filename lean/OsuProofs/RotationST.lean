import OsuProofs.RotationBridge
import OsuProofs.SourceTerms
import Mathlib.Analysis.SpecialFunctions.Trigonometric.Basic

/-! Joint rotation of spectrum and wind on a uniform direction grid: the source-term kernels (C09). -/
namespace Osu.Rot

open Real Finset Osu.ST

/-- the floor function of the angle wraps at ℝ -/
noncomputable def rfloor (x : ℝ) : ℝ := (⌊x⌋ : ℝ)

theorem wrapPi_eq (x : ℝ) : wrapPi rfloor x = x - (⌊(x + π) / (2 * π)⌋ : ℝ) * (2 * π) := by
  simp only [wrapPi, modTwoPi, twoPi, Solv.two, Transc.pi, rfloor]
  push_cast; ring

/-- the wrap is 2π-periodic -/
theorem wrapPi_add_int (x : ℝ) (q : ℤ) : wrapPi rfloor (x + q * (2 * π)) = wrapPi rfloor x := by
  rw [wrapPi_eq, wrapPi_eq]
  have hpi : (2 * π) ≠ 0 := by have := Real.pi_pos; positivity
  have : (x + q * (2 * π) + π) / (2 * π) = (x + π) / (2 * π) + q := by field_simp; ring
  rw [this, Int.floor_add_intCast]
  push_cast; ring

/-- the wrap does not change the cosine -/
theorem cos_wrapPi (x : ℝ) : Real.cos (wrapPi rfloor x) = Real.cos x := by
  rw [wrapPi_eq, Real.cos_sub_int_mul_two_pi]

variable {N : ℕ} [NeZero N]

theorem theta_sub (θ0 : ℝ) (j k : Fin N) :
    ∃ q : ℕ, theta θ0 (j - k) = theta θ0 j - (k : ℕ) * dθ N + q * 360 := by
  obtain ⟨q, hq⟩ := theta_add θ0 (j - k) k
  refine ⟨q, ?_⟩
  rw [sub_add_cancel] at hq
  linarith

/-- radians of a direction given in degrees, as the model computes them -/
theorem deg2rad_eq (d : ℝ) : deg2rad d = d * π / 180 := by
  simp [deg2rad, Transc.pi]

/-- cosine of the mutual angle between bin `j` and the wind -/
noncomputable def cosWind (θ0 wdir : ℝ) (j : Fin N) : ℝ :=
  Real.cos (wrapPi rfloor (deg2rad (theta θ0 j) - deg2rad wdir))

theorem cosWind_eq (θ0 wdir : ℝ) (j : Fin N) : cosWind θ0 wdir j = cosd (theta θ0 j - wdir) := by
  simp only [cosWind, cos_wrapPi, deg2rad_eq, cosd]
  congr 1; ring

/-- rotating the wind by `k` bins: bin `j` sees the wind as bin `j - k` saw it before -/
theorem cosWind_rot (θ0 wdir : ℝ) (j k : Fin N) :
    cosWind θ0 (wdir + (k : ℕ) * dθ N) j = cosWind θ0 wdir (j - k) := by
  rw [cosWind_eq, cosWind_eq]
  obtain ⟨q, hq⟩ := theta_sub θ0 j k
  rw [hq, show theta θ0 j - (k : ℕ) * dθ N + q * 360 - wdir = (theta θ0 j - (wdir + (k : ℕ) * dθ N)) + q * 360 by ring,
    cosd_add_360]

/-! ### ST4 wind input: one frequency row -/

noncomputable def inputRow (p : GenP ℝ) (kk om ustar z0 θ0 wdir : ℝ) (E : Fin N → ℝ) : Fin N → ℝ :=
  fun j => st4Rate p kk om ustar z0 (cosWind θ0 wdir j) (E j)

/-- joint rotation of the spectrum and the wind by `k` bins rotates the wind-input row by `k` bins
(roughness and friction velocity fixed) -/
theorem inputRow_rot (p : GenP ℝ) (kk om ustar z0 θ0 wdir : ℝ) (k : Fin N) (E : Fin N → ℝ) :
    inputRow p kk om ustar z0 θ0 (wdir + (k : ℕ) * dθ N) (rotE k E) = rotE k (inputRow p kk om ustar z0 θ0 wdir E) := by
  funext j
  simp only [inputRow, rotE, cosWind_rot]

/-- the model's row (lists) is the function-level row -/
theorem st4_row_bridge (p : GenP ℝ) (kk om ustar z0 θ0 wdir : ℝ) (E : Fin N → ℝ) :
    List.zipWith (fun e c => st4Rate p kk om ustar z0 c e) (List.ofFn E)
      (cosMutual rfloor (List.ofFn fun j : Fin N => deg2rad (theta θ0 j)) wdir)
      = List.ofFn (inputRow p kk om ustar z0 θ0 wdir E) := by
  simp only [cosMutual, List.map_ofFn]
  rw [zipWith_ofFn]
  rfl

/-! ### anything that is a circular convolution over direction commutes with the rotation -/

/-- `(conv g x) j = Σ_j' g (j' - j) x j'`: the band-integrated saturation and the cumulative-breaking
strength both have this form, with `g` a function of the angular separation of the two bins -/
def conv (g : Fin N → ℝ) (x : Fin N → ℝ) : Fin N → ℝ := fun j => ∑ j', g (j' - j) * x j'

theorem conv_rot (g : Fin N → ℝ) (k : Fin N) (x : Fin N → ℝ) : conv g (rotE k x) = rotE k (conv g x) := by
  funext j
  simp only [conv, rotE]
  refine Fintype.sum_equiv (Equiv.subRight k) _ _ (fun j' => ?_)
  simp only [Equiv.subRight_apply]
  congr 2
  abel

/-- the angular separation of two bins only depends on the difference of their indices -/
theorem wrap_separation (θ0 : ℝ) (j j' : Fin N) :
    wrapPi rfloor (deg2rad (theta θ0 j') - deg2rad (theta θ0 j)) =
      wrapPi rfloor (deg2rad (theta 0 (j' - j))) := by
  obtain ⟨q, hq⟩ := theta_sub (N := N) 0 j' j
  have hlin : ∀ a : Fin N, theta θ0 a = θ0 + theta 0 a := by intro a; simp [theta]
  have h2 : theta (N := N) 0 j = (j : ℕ) * dθ N := by simp [theta]
  rw [hq, hlin j', hlin j, h2]
  simp only [deg2rad_eq]
  have : (θ0 + theta 0 j') * π / 180 - (θ0 + ↑↑j * dθ N) * π / 180
      = (theta 0 j' - ↑↑j * dθ N + ↑q * 360) * π / 180 + ((-(q : ℤ) : ℤ) : ℝ) * (2 * π) := by
    push_cast; ring
  rw [this, wrapPi_add_int]

/-- the kernel of the band-integrated saturation -/
noncomputable def satKernel (bp : BrkP ℝ) (d : Fin N) : ℝ :=
  let ma := wrapPi rfloor (deg2rad (theta 0 d))
  if deg2rad bp.widthDeg + 1 / ((1000000000 : ℕ) : ℝ) < Solv.absv ma then 0 else npow (Real.cos ma) bp.cosPow * dθ N

/-- band-integrated saturation of one frequency row on the uniform grid, written as in the code -/
noncomputable def bandRow (bp : BrkP ℝ) (θ0 : ℝ) (sat : Fin N → ℝ) : Fin N → ℝ :=
  fun j => ∑ j', (let ma := wrapPi rfloor (deg2rad (theta θ0 j') - deg2rad (theta θ0 j))
                   if deg2rad bp.widthDeg + 1 / ((1000000000 : ℕ) : ℝ) < Solv.absv ma then 0 else sat j' * npow (Real.cos ma) bp.cosPow * dθ N)

theorem bandRow_eq_conv (bp : BrkP ℝ) (θ0 : ℝ) (sat : Fin N → ℝ) :
    bandRow bp θ0 sat = conv (satKernel bp) sat := by
  funext j
  simp only [bandRow, conv, satKernel]
  apply Finset.sum_congr rfl
  intro j' _
  rw [wrap_separation]
  split <;> ring

/-- the band-integrated saturation rotates with the spectrum -/
theorem bandRow_rot (bp : BrkP ℝ) (θ0 : ℝ) (k : Fin N) (sat : Fin N → ℝ) :
    bandRow bp θ0 (rotE k sat) = rotE k (bandRow bp θ0 sat) := by
  rw [bandRow_eq_conv, bandRow_eq_conv, conv_rot]

theorem st_lsum_ofFn : ∀ {n : ℕ} (a : Fin n → ℝ), Osu.ST.lsum (List.ofFn a) = ∑ j, a j
  | 0, _ => by simp [Osu.ST.lsum]
  | n + 1, a => by
    rw [List.ofFn_succ, Fin.sum_univ_succ]
    simp only [Osu.ST.lsum]
    rw [st_lsum_ofFn (fun i => a i.succ)]

/-- the model's band-integrated saturation of one frequency row on the uniform grid is `bandRow` -/
theorem band_row_bridge {N : ℕ} [NeZero N] (bp : BrkP ℝ) (θ0 cg k : ℝ) (E : Fin N → ℝ) (om df : List ℝ) :
    bandSaturationRow rfloor bp
      { omega := om, theta := List.ofFn fun j : Fin N => deg2rad (theta θ0 j), df := df, dth := List.ofFn fun _ : Fin N => dθ N }
      (List.ofFn E) cg k
      = List.ofFn (bandRow bp θ0 (fun j => E j * cg * (k * k * k) / Solv.two / Transc.pi)) := by
  simp only [bandSaturationRow, List.map_ofFn, List.zip]
  congr 1
  funext j
  simp only [Function.comp]
  rw [zipWith_ofFn, zipWith_ofFn, st_lsum_ofFn]
  simp only [bandRow]
  apply Finset.sum_congr rfl
  intro j' _
  split <;> rfl


/-! ### sums over direction are invariant: bulk rates, ST6 -/

theorem sum_rot (k : Fin N) (x : Fin N → ℝ) : ∑ j, rotE k x j = ∑ j, x j :=
  Fintype.sum_equiv (Equiv.subRight k) _ _ (fun j => by simp [rotE])

/-- the directional integral of a row (uniform bins) does not change under rotation: the ST6
saturation spectrum, hence its exceedance and running sum, and every bulk rate are invariant -/
theorem dirIntegral_rot (k : Fin N) (x : Fin N → ℝ) (w : ℝ) : ∑ j, rotE k x j * w = ∑ j, x j * w := by
  rw [← Finset.sum_mul, ← Finset.sum_mul, sum_rot]

/-- a per-frequency coefficient times the row rotates with the row (ST6, and the saturation term
of ST4 given its rotated saturation) -/
theorem scaled_row_rot (coef : ℝ → ℝ) (k : Fin N) (E : Fin N → ℝ) :
    (fun j => coef (rotE k E j)) = rotE k (fun j => coef (E j)) := rfl

/-! ### stress: the east/north components rotate as a vector -/

/-- east and north components of the resolved wave stress of one frequency row -/
noncomputable def stressEast (θ0 : ℝ) (S : Fin N → ℝ) : ℝ := Acos 1 θ0 S
noncomputable def stressNorth (θ0 : ℝ) (S : Fin N → ℝ) : ℝ := Bsin 1 θ0 S

theorem stress_rot (θ0 : ℝ) (k : Fin N) (S : Fin N → ℝ) :
    stressEast θ0 (rotE k S) = cosd ((k : ℕ) * dθ N) * stressEast θ0 S - sind ((k : ℕ) * dθ N) * stressNorth θ0 S ∧
    stressNorth θ0 (rotE k S) = sind ((k : ℕ) * dθ N) * stressEast θ0 S + cosd ((k : ℕ) * dθ N) * stressNorth θ0 S := by
  simp only [stressEast, stressNorth]
  have h1 := Acos_rot 1 θ0 k S
  have h2 := Bsin_rot 1 θ0 k S
  simp only [Nat.cast_one, one_mul] at h1 h2
  exact ⟨h1, h2⟩

/-- a vector rotated by `φ` keeps its magnitude -/
theorem magnitude_rot (e n c s : ℝ) (h : c ^ 2 + s ^ 2 = 1) :
    Real.sqrt ((s * e + c * n) * (s * e + c * n) + (c * e - s * n) * (c * e - s * n)) = Real.sqrt (n * n + e * e) := by
  congr 1
  nlinarith [h]

/-- … and its direction moves by `φ` (as angles mod 2π) -/
theorem direction_rot (e n φ : ℝ) (h : e ≠ 0 ∨ n ≠ 0) :
    dirAngle (Real.cos φ * e - Real.sin φ * n) (Real.sin φ * e + Real.cos φ * n) = dirAngle e n + (φ : Real.Angle) :=
  dirAngle_rot e n φ h

/-! ### cumulative breaking: the strength integral is a convolution too -/

/-- the squared difference of two phase-velocity vectors only depends on the angle between them -/
theorem speedDiff_sq (c c' a b : ℝ) :
    (Real.cos a * c' - Real.cos b * c) * (Real.cos a * c' - Real.cos b * c) +
      (Real.sin a * c' - Real.sin b * c) * (Real.sin a * c' - Real.sin b * c)
      = c' ^ 2 + c ^ 2 - 2 * c * c' * Real.cos (a - b) := by
  rw [Real.cos_sub]
  have h1 := Real.cos_sq_add_sin_sq a
  have h2 := Real.cos_sq_add_sin_sq b
  nlinarith [h1, h2]

theorem cosd_separation (θ0 : ℝ) (j j' : Fin N) :
    Real.cos (deg2rad (theta θ0 j') - deg2rad (theta θ0 j)) = cosd (theta 0 (j' - j)) := by
  rw [← cos_wrapPi, wrap_separation, cos_wrapPi, deg2rad_eq, cosd]

/-- contribution of one longer-wave frequency row `i'` (phase speed `c'`, weights `X j' ≥ 0` from
the saturation exceedance, constant `w = Δf'·Δθ·jacobian`) to the strength at a bin of phase
speed `c` and direction index `j`, written as in the code -/
noncomputable def strengthRow (θ0 c c' w : ℝ) (X : Fin N → ℝ) : Fin N → ℝ :=
  fun j => ∑ j', w * Real.sqrt (
    (Real.cos (deg2rad (theta θ0 j')) * c' - Real.cos (deg2rad (theta θ0 j)) * c) *
      (Real.cos (deg2rad (theta θ0 j')) * c' - Real.cos (deg2rad (theta θ0 j)) * c) +
    (Real.sin (deg2rad (theta θ0 j')) * c' - Real.sin (deg2rad (theta θ0 j)) * c) *
      (Real.sin (deg2rad (theta θ0 j')) * c' - Real.sin (deg2rad (theta θ0 j)) * c)) * X j'

noncomputable def strengthKernel (c c' w : ℝ) (d : Fin N) : ℝ :=
  w * Real.sqrt (c' ^ 2 + c ^ 2 - 2 * c * c' * cosd (theta 0 d))

theorem strengthRow_eq_conv (θ0 c c' w : ℝ) (X : Fin N → ℝ) :
    strengthRow θ0 c c' w X = conv (strengthKernel c c' w) X := by
  funext j
  simp only [strengthRow, conv, strengthKernel]
  apply Finset.sum_congr rfl
  intro j' _
  rw [speedDiff_sq, cosd_separation]

/-- the strength integral rotates with the saturation field, hence the cumulative term
`-1.44 c_cu · strength · E` rotates with the spectrum -/
theorem strengthRow_rot (θ0 c c' w : ℝ) (k : Fin N) (X : Fin N → ℝ) :
    strengthRow θ0 c c' w (rotE k X) = rotE k (strengthRow θ0 c c' w X) := by
  rw [strengthRow_eq_conv, strengthRow_eq_conv, conv_rot]

/-! ### mirror image (grid starting at 0) -/

theorem cosWind_mirror (wdir : ℝ) (j : Fin N) : cosWind (N := N) 0 (-wdir) j = cosWind 0 wdir (-j) := by
  rw [cosWind_eq, cosWind_eq]
  obtain ⟨q, hq⟩ := theta_neg (N := N) j
  rw [hq, show -(theta (N := N) 0 j) + q * 360 - wdir = -(theta 0 j - -wdir) + q * 360 by ring, cosd_add_360, cosd_neg]

/-- mirroring the direction axis and the wind direction mirrors the wind-input row -/
theorem inputRow_mirror (p : GenP ℝ) (kk om ustar z0 wdir : ℝ) (E : Fin N → ℝ) :
    inputRow p kk om ustar z0 0 (-wdir) (mirE E) = mirE (inputRow p kk om ustar z0 0 wdir E) := by
  funext j
  simp only [inputRow, mirE, cosWind_mirror]

/-- … and the stress vector is reflected: east kept, north negated -/
theorem stress_mirror (S : Fin N → ℝ) :
    stressEast 0 (mirE S) = stressEast 0 S ∧ stressNorth 0 (mirE S) = -stressNorth 0 S :=
  ⟨Acos_mir 1 S, Bsin_mir 1 S⟩

/-- a circular convolution with an even kernel commutes with the mirror image -/
theorem conv_mirror (g : Fin N → ℝ) (hg : ∀ d, g (-d) = g d) (x : Fin N → ℝ) :
    conv g (mirE x) = mirE (conv g x) := by
  funext j
  simp only [conv, mirE]
  refine Fintype.sum_equiv (Equiv.neg (Fin N)) _ _ (fun j' => ?_)
  simp only [Equiv.neg_apply]
  rw [← hg (j' - j)]
  congr 2
  abel

/-- the wrap of `-x` has the same magnitude as the wrap of `x` (`-π` is its own mirror image) -/
theorem abs_wrapPi_neg (x : ℝ) : |wrapPi rfloor (-x)| = |wrapPi rfloor x| := by
  have hpi := Real.pi_pos
  rw [wrapPi_eq, wrapPi_eq]
  set n := ⌊(x + π) / (2 * π)⌋ with hn
  have h2pi : (0 : ℝ) < 2 * π := by positivity
  have hfl := Int.floor_le ((x + π) / (2 * π))
  have hlt := Int.lt_floor_add_one ((x + π) / (2 * π))
  rw [← hn] at hfl hlt
  rw [le_div_iff₀ h2pi] at hfl
  rw [div_lt_iff₀ h2pi] at hlt
  -- w := x - 2π n ∈ [-π, π)
  by_cases hw : x - n * (2 * π) = -π
  · -- the boundary: both wraps are -π
    have : ⌊(-x + π) / (2 * π)⌋ = -n + 1 := by
      rw [Int.floor_eq_iff]
      push_cast
      constructor
      · rw [le_div_iff₀ h2pi]; linarith
      · rw [div_lt_iff₀ h2pi]; linarith
    rw [this]
    push_cast
    rw [hw, show -x - (-(n : ℝ) + 1) * (2 * π) = -(x - n * (2 * π)) - 2 * π by ring, hw]
    simp only [neg_neg, abs_neg]
    rw [show π - 2 * π = -π by ring, abs_neg]
  · have hgt : -π < x - n * (2 * π) := by
      rcases lt_or_eq_of_le (show -π ≤ x - n * (2 * π) by linarith) with h | h
      · exact h
      · exact absurd h.symm hw
    have : ⌊(-x + π) / (2 * π)⌋ = -n := by
      rw [Int.floor_eq_iff]
      push_cast
      constructor
      · rw [le_div_iff₀ h2pi]; linarith
      · rw [div_lt_iff₀ h2pi]; linarith
    rw [this]
    push_cast
    rw [show -x - -(n : ℝ) * (2 * π) = -(x - n * (2 * π)) by ring, abs_neg]

theorem absv_eq_abs (a : ℝ) : Solv.absv a = |a| := by
  simp only [Solv.absv]
  split
  · rename_i h; rw [abs_of_neg h]
  · rename_i h; rw [abs_of_nonneg (not_lt.1 h)]

/-- the saturation kernel is even in the index difference -/
theorem satKernel_even (bp : BrkP ℝ) (d : Fin N) : satKernel bp (-d) = satKernel bp d := by
  obtain ⟨q, hq⟩ := theta_neg (N := N) d
  have hw : wrapPi rfloor (deg2rad (theta (N := N) 0 (-d))) = wrapPi rfloor (-(deg2rad (theta (N := N) 0 d))) := by
    rw [hq, deg2rad_eq, deg2rad_eq]
    have : (-(theta (N := N) 0 d) + ↑q * 360) * π / 180 = -(theta (N := N) 0 d * π / 180) + ((q : ℤ) : ℝ) * (2 * π) := by
      push_cast; ring
    rw [this, wrapPi_add_int]
  simp only [satKernel, hw, absv_eq_abs, abs_wrapPi_neg, cos_wrapPi, Real.cos_neg]

/-- the band-integrated saturation of the mirrored spectrum is the mirrored saturation (grid from 0) -/
theorem bandRow_mirror (bp : BrkP ℝ) (sat : Fin N → ℝ) :
    bandRow bp 0 (mirE sat) = mirE (bandRow bp 0 sat) := by
  rw [bandRow_eq_conv, bandRow_eq_conv, conv_mirror _ (satKernel_even bp)]

theorem strengthKernel_even (c c' w : ℝ) (d : Fin N) : strengthKernel c c' w (-d) = strengthKernel c c' w d := by
  obtain ⟨q, hq⟩ := theta_neg (N := N) d
  simp only [strengthKernel]
  rw [hq, cosd_add_360, cosd_neg]

/-- … and so is the cumulative-breaking strength -/
theorem strengthRow_mirror (c c' w : ℝ) (X : Fin N → ℝ) :
    strengthRow 0 c c' w (mirE X) = mirE (strengthRow 0 c c' w X) := by
  rw [strengthRow_eq_conv, strengthRow_eq_conv, conv_mirror _ (strengthKernel_even c c' w)]


end Osu.Rot
