import OsuProofs.NewtonRotation
import OsuProofs.MemRotation
import OsuProofs.StepEquivariant

/-! Mirror image: negating the direction axis (C06).  The Newton-loop argument is stated once for an
abstract linear isometry `L` of the multiplier space that commutes with the constraint function. -/
namespace Osu.Est

open Real Finset

/-- what the equivariance argument needs from a symmetry `L` of the multiplier space -/
structure Symmetry (L : List ℝ → List ℝ) (delta : List ℝ) (T : List (List ℝ)) : Prop where
  length : ∀ v, (L v).length = 4
  norm : ∀ v : List ℝ, v.length = 4 → norm2 (L v) = norm2 v
  lin : ∀ (t : ℝ) (a b : List ℝ), a.length = 4 → b.length = 4 → L (vadd a (vscale t b)) = vadd (L a) (vscale t (L b))
  neg : ∀ f : List ℝ, f.length = 4 → L (f.map fun x => -x) = (L f).map fun x => -x
  constraints : ∀ lam M : List ℝ, M.length = 4 → constraints (L lam) (L M) delta T = L (constraints lam M delta T)

theorem lineSearch_sym (L : List ℝ → List ℝ) (delta : List ℝ) (T : List (List ℝ)) (hL : Symmetry L delta T)
    (M cur upd : List ℝ) (mc mu mf : ℝ) (hM : M.length = 4) (hc : cur.length = 4) (hu : upd.length = 4)
    (depth : ℕ) (factor : ℝ) :
    lineSearch (L M) delta T (L cur) (L upd) mc mu mf depth factor
      = (lineSearch M delta T cur upd mc mu mf depth factor).map fun p => (L p.1, L p.2) := by
  induction depth generalizing factor with
  | zero => simp [lineSearch]
  | succ d ih =>
    simp only [lineSearch]
    rw [← hL.lin _ _ _ hc hu, hL.constraints _ M hM, hL.norm _ (constraints_length _ _ _ _)]
    split
    · simp
    · exact ih _

/-- the Newton step commutes with the symmetry -/
def StepSym (L : List ℝ → List ℝ) (solve : List (List ℝ) → List ℝ → List ℝ) (delta : List ℝ) (T : List (List ℝ)) : Prop :=
  (∀ lam g : List ℝ, lam.length = 4 → g.length = 4 →
    solve (jacobian (L lam) delta T) (L g) = L (solve (jacobian lam delta T) g)) ∧
  (∀ J g, (solve J g).length = 4)

theorem newtonLoop_sym (L : List ℝ → List ℝ) (delta : List ℝ) (T : List (List ℝ)) (hL : Symmetry L delta T)
    (solve : List (List ℝ) → List ℝ → List ℝ) (hS : StepSym L solve delta T) (atol : ℝ) (lsDepth : ℕ)
    (M : List ℝ) (hM : M.length = 4) (fuel it : ℕ) (cur f : List ℝ) (hc : cur.length = 4) (hf : f.length = 4) :
    let r := newtonLoop solve atol lsDepth M delta T fuel it cur f
    let r' := newtonLoop solve atol lsDepth (L M) delta T fuel it (L cur) (L f)
    r'.lam = L r.lam ∧ r'.converged = r.converged ∧ r'.iterations = r.iterations := by
  induction fuel generalizing it cur f with
  | zero => simp [newtonLoop]
  | succ n ih =>
    simp only [newtonLoop]
    rw [hL.norm f hf, hL.norm cur hc]
    split
    · exact ⟨rfl, rfl, rfl⟩
    · have hneg : (f.map fun x => -x).length = 4 := by simpa using hf
      rw [← hL.neg f hf, hS.1 cur _ hc hneg, hL.norm _ (hS.2 _ _),
        lineSearch_sym L delta T hL M cur _ _ _ _ hM hc (hS.2 _ _)]
      cases hls : lineSearch M delta T cur (solve (jacobian cur delta T) (f.map fun x => -x))
          (norm2 cur) (norm2 (solve (jacobian cur delta T) (f.map fun x => -x))) (norm2 f) lsDepth 1 with
      | none => exact ⟨rfl, rfl, rfl⟩
      | some p =>
        obtain ⟨next, nf⟩ := p
        obtain ⟨l1, l2⟩ := lineSearch_lengths _ _ _ _ _ _ _ _ hc (hS.2 _ _) _ _ _ _ hls
        simp only [Option.map_some]
        exact ih (it + 1) next nf l1 l2

/-! ### the mirror symmetry -/

/-- mirror image of a 4-vector of moments / multipliers: sine components change sign -/
def mirLam (v : List ℝ) : List ℝ := [v.getD 0 0, -(v.getD 1 0), v.getD 2 0, -(v.getD 3 0)]

theorem initialValue_mirror (a1 b1 a2 b2 : ℝ) :
    initialValue a1 (-b1) a2 (-b2) = mirLam (initialValue a1 b1 a2 b2) := by
  simp only [initialValue, mirLam, two, List.getD_cons_zero, List.getD_cons_succ, Nat.cast_ofNat]
  congr 1 <;> [ring; skip]
  congr 1 <;> [ring; skip]
  congr 1 <;> [ring; skip]
  congr 1
  ring

theorem ipOf_mirror (θ : ℝ) (lam : List ℝ) : ipOf (mirLam lam) (twiddleCol θ) = ipOf lam (twiddleCol (-θ)) := by
  rcases lam with _ | ⟨l1, _ | ⟨l2, _ | ⟨l3, _ | ⟨l4, rest⟩⟩⟩⟩ <;>
    simp [ipOf, mirLam, twiddleCol, lsum, Real.cos_neg, Real.sin_neg, mul_neg]

variable {N : ℕ} [NeZero N]

theorem thetaR_neg (j : Fin N) : ∃ q : ℕ, thetaR (N := N) 0 (-j) = -(thetaR (N := N) 0 j) + q * (2 * π) := by
  obtain ⟨q, hq⟩ := Osu.Rot.theta_neg (N := N) j
  refine ⟨q, ?_⟩
  simp only [thetaR, hq]; ring

theorem twiddleCol_periodic (θ : ℝ) (q : ℕ) : twiddleCol (θ + q * (2 * π)) = twiddleCol θ := by
  simp only [twiddleCol]
  have h2 : 2 * (θ + q * (2 * π)) = 2 * θ + ((2 * q : ℕ) : ℝ) * (2 * π) := by push_cast; ring
  rw [h2, Real.cos_add_nat_mul_two_pi, Real.sin_add_nat_mul_two_pi, Real.cos_add_nat_mul_two_pi, Real.sin_add_nat_mul_two_pi]

/-- the exponents of mirrored multipliers are the mirrored exponents (grid from 0) -/
theorem exponents_mirror (lam : List ℝ) :
    (fun j : Fin N => ipOf (mirLam lam) (twiddleCol (thetaR (N := N) 0 j)))
      = Osu.Rot.mirE (fun j : Fin N => ipOf lam (twiddleCol (thetaR (N := N) 0 j))) := by
  funext j
  simp only [Osu.Rot.mirE]
  rw [ipOf_mirror]
  obtain ⟨q, hq⟩ := thetaR_neg (N := N) j
  rw [hq, twiddleCol_periodic]

theorem distF_mirror (ip : Fin N → ℝ) (Δ : ℝ) : distF (Osu.Rot.mirE ip) Δ = Osu.Rot.mirE (distF ip Δ) := by
  funext j
  simp only [distF, Osu.Rot.mirE]
  congr 1
  exact Fintype.sum_equiv (Equiv.neg (Fin N)) _ _ (fun j' => by simp)

/-- the `approximate` variant mirrors with its input -/
theorem approximate_mirror (Δ a1 b1 a2 b2 : ℝ) :
    distF (fun j : Fin N => ipOf (initialValue a1 (-b1) a2 (-b2)) (twiddleCol (thetaR (N := N) 0 j))) Δ
      = Osu.Rot.mirE (distF (fun j : Fin N => ipOf (initialValue a1 b1 a2 b2) (twiddleCol (thetaR (N := N) 0 j))) Δ) := by
  rw [initialValue_mirror, exponents_mirror, distF_mirror]

theorem gridMoment_mirror (Δ : ℝ) (D : Fin N → ℝ) :
    [gridMoment (N := N) 0 Δ (Osu.Rot.mirE D) 0, gridMoment (N := N) 0 Δ (Osu.Rot.mirE D) 1,
     gridMoment (N := N) 0 Δ (Osu.Rot.mirE D) 2, gridMoment (N := N) 0 Δ (Osu.Rot.mirE D) 3]
    = mirLam [gridMoment (N := N) 0 Δ D 0, gridMoment (N := N) 0 Δ D 1, gridMoment (N := N) 0 Δ D 2, gridMoment (N := N) 0 Δ D 3] := by
  have hre : ∀ m, gridMoment (N := N) 0 Δ (Osu.Rot.mirE D) m = ∑ j, (twiddleCol (-(thetaR (N := N) 0 j))).getD m 0 * D j * Δ := by
    intro m
    simp only [gridMoment, Osu.Rot.mirE]
    rw [← Fintype.sum_equiv (Equiv.neg (Fin N)) (fun j => (twiddleCol (thetaR (N := N) 0 (-j))).getD m 0 * D j * Δ)
      (fun j => (twiddleCol (thetaR (N := N) 0 j)).getD m 0 * D (-j) * Δ) (fun j => by simp)]
    apply Finset.sum_congr rfl; intro j _
    obtain ⟨q, hq⟩ := thetaR_neg (N := N) j
    rw [hq, twiddleCol_periodic]
  simp only [hre, mirLam, List.getD_cons_zero, List.getD_cons_succ]
  simp only [gridMoment, twiddleCol, List.getD_cons_zero, List.getD_cons_succ, mul_neg, Real.cos_neg, Real.sin_neg,
    neg_mul, Finset.sum_neg_distrib]

theorem recon_mirror (Δ : ℝ) (lam : List ℝ) :
    [recon (mirLam lam) (gridDelta N Δ) (gridT (N := N) 0) 0, recon (mirLam lam) (gridDelta N Δ) (gridT (N := N) 0) 1,
     recon (mirLam lam) (gridDelta N Δ) (gridT (N := N) 0) 2, recon (mirLam lam) (gridDelta N Δ) (gridT (N := N) 0) 3]
    = mirLam [recon lam (gridDelta N Δ) (gridT (N := N) 0) 0, recon lam (gridDelta N Δ) (gridT (N := N) 0) 1,
        recon lam (gridDelta N Δ) (gridT (N := N) 0) 2, recon lam (gridDelta N Δ) (gridT (N := N) 0) 3] := by
  simp only [recon_grid]
  rw [exponents_mirror, distF_mirror]
  exact gridMoment_mirror Δ _

theorem constraints_mirror (Δ : ℝ) (lam M : List ℝ) (hM : M.length = 4) :
    constraints (mirLam lam) (mirLam M) (gridDelta N Δ) (gridT (N := N) 0)
      = mirLam (constraints lam M (gridDelta N Δ) (gridT (N := N) 0)) := by
  have hr := recon_mirror (N := N) Δ lam
  simp only [mirLam, List.getD_cons_zero, List.getD_cons_succ, List.cons.injEq, and_true] at hr
  obtain ⟨h0, h1, h2, h3⟩ := hr
  match M, hM with
  | [m0, m1, m2, m3], _ =>
    rw [constraints_eq, constraints_eq]
    simp only [List.range, List.range.loop, List.map_cons, List.map_nil, mirLam, List.getD_cons_zero, List.getD_cons_succ]
    rw [h0, h1, h2, h3]
    simp only [List.cons.injEq, and_true]
    refine ⟨?_, ?_, ?_, ?_⟩ <;> first | trivial | ring

/-- the mirror image is a symmetry of the Newton problem on a grid starting at 0 -/
theorem mirror_symmetry (Δ : ℝ) : Symmetry mirLam (gridDelta N Δ) (gridT (N := N) 0) where
  length := fun _ => rfl
  norm := by
    intro v hv
    match v, hv with
    | [a, b, c, d], _ =>
      simp only [norm2, mirLam, List.getD_cons_zero, List.getD_cons_succ, List.map_cons, List.map_nil, lsum]
      congr 1; ring
  lin := by
    intro t a b ha hb
    match a, ha, b, hb with
    | [a0, a1, a2, a3], _, [b0, b1, b2, b3], _ =>
      simp only [mirLam, vadd, vscale, List.map_cons, List.map_nil, List.zipWith_cons_cons, List.zipWith_nil_right,
        List.getD_cons_zero, List.getD_cons_succ]
      simp only [List.cons.injEq, and_true]
      refine ⟨?_, ?_, ?_, ?_⟩ <;> first | trivial | ring
  neg := by
    intro f hf
    match f, hf with
    | [a, b, c, d], _ => simp [mirLam]
  constraints := fun lam M hM => constraints_mirror Δ lam M hM

/-- **MEM2 / Newton mirrors with its input**: mirroring the moments (`b1, b2 ↦ −b1, −b2`) mirrors the
returned distribution (`D(θ) ↦ D(−θ)`) on every uniform grid starting at 0, for every tolerance,
iteration cap and line-search depth, converged or not, given a Newton step that commutes with the mirror -/
theorem mem2Newton_mirror (solve : List (List ℝ) → List ℝ → List ℝ) (atol : ℝ) (maxIter lsDepth : ℕ) (Δ : ℝ)
    (hS : StepSym mirLam solve (gridDelta N Δ) (gridT (N := N) 0)) (a1 b1 a2 b2 : ℝ) :
    ∃ D : Fin N → ℝ,
      mem2Newton solve atol maxIter lsDepth [a1, b1, a2, b2] (gridDelta N Δ) (gridT (N := N) 0) = List.ofFn D ∧
      mem2Newton solve atol maxIter lsDepth [a1, -b1, a2, -b2] (gridDelta N Δ) (gridT (N := N) 0)
        = List.ofFn (Osu.Rot.mirE D) := by
  have hL := mirror_symmetry (N := N) Δ
  have hM : mirLam [a1, b1, a2, b2] = [a1, -b1, a2, -b2] := rfl
  have hrun := newtonLoop_sym mirLam _ _ hL solve hS atol lsDepth [a1, b1, a2, b2] rfl maxIter 0 (initialValue a1 b1 a2 b2)
    (constraints (initialValue a1 b1 a2 b2) [a1, b1, a2, b2] (gridDelta N Δ) (gridT (N := N) 0)) rfl (constraints_length _ _ _ _)
  simp only at hrun
  rw [← hL.constraints _ _ rfl, hM, ← initialValue_mirror] at hrun
  obtain ⟨hlam, _, _⟩ := hrun
  refine ⟨distF (fun j : Fin N => ipOf (newton solve atol maxIter lsDepth [a1, b1, a2, b2] (gridDelta N Δ) (gridT (N := N) 0)
      (initialValue a1 b1 a2 b2)).lam (twiddleCol (thetaR (N := N) 0 j))) Δ, ?_, ?_⟩
  · simp only [mem2Newton, List.getD_cons_zero, List.getD_cons_succ, gridDelta, gridT, dist_bridge]
  · simp only [mem2Newton, List.getD_cons_zero, List.getD_cons_succ]
    have : (newton solve atol maxIter lsDepth [a1, -b1, a2, -b2] (gridDelta N Δ) (gridT (N := N) 0)
        (initialValue a1 (-b1) a2 (-b2))).lam
        = mirLam (newton solve atol maxIter lsDepth [a1, b1, a2, b2] (gridDelta N Δ) (gridT (N := N) 0)
            (initialValue a1 b1 a2 b2)).lam := by
      simp only [newton]; exact hlam
    rw [this]
    simp only [gridDelta, gridT, dist_bridge]
    rw [exponents_mirror, distF_mirror]

/-! ### MEM mirrors with its input -/

theorem coeffs_conj (c1 c2 : ℂ) :
    phi1C ((starRingEnd ℂ) c1) ((starRingEnd ℂ) c2) = (starRingEnd ℂ) (phi1C c1 c2) ∧
    phi2C ((starRingEnd ℂ) c1) ((starRingEnd ℂ) c2) = (starRingEnd ℂ) (phi2C c1 c2) ∧
    numC ((starRingEnd ℂ) c1) ((starRingEnd ℂ) c2) = (starRingEnd ℂ) (numC c1 c2) := by
  have h1 : phi1C ((starRingEnd ℂ) c1) ((starRingEnd ℂ) c2) = (starRingEnd ℂ) (phi1C c1 c2) := by
    simp only [phi1C, Complex.normSq_conj, map_div₀, map_sub, map_mul, Complex.conj_conj, Complex.conj_ofReal]
  have h2 : phi2C ((starRingEnd ℂ) c1) ((starRingEnd ℂ) c2) = (starRingEnd ℂ) (phi2C c1 c2) := by
    simp only [phi2C, h1, map_sub, map_mul]
  refine ⟨h1, h2, ?_⟩
  simp only [numC, h1, h2, map_sub, map_mul, map_one, Complex.conj_conj]

theorem unit_neg (θ : ℝ) : unit (-θ) = (starRingEnd ℂ) (unit θ) := by
  apply Complex.ext <;> simp [unit, Real.cos_neg, Real.sin_neg]

/-- the MEM value of mirrored moments at `θ` is the value of the original moments at `−θ` -/
theorem memRawAt_mirror (a1 b1 a2 b2 θ : ℝ) : memRawAt a1 (-b1) a2 (-b2) θ = memRawAt a1 b1 a2 b2 (-θ) := by
  have hc1 : (⟨a1, -b1⟩ : ℂ) = (starRingEnd ℂ) (⟨a1, b1⟩ : ℂ) := by apply Complex.ext <;> simp
  have hc2 : (⟨a2, -b2⟩ : ℂ) = (starRingEnd ℂ) (⟨a2, b2⟩ : ℂ) := by apply Complex.ext <;> simp
  obtain ⟨r1, r2, r3⟩ := memCoeffs_toC a1 (-b1) a2 (-b2)
  obtain ⟨o1, o2, o3⟩ := memCoeffs_toC a1 b1 a2 b2
  obtain ⟨k1, k2, k3⟩ := coeffs_conj ⟨a1, b1⟩ ⟨a2, b2⟩
  rw [hc1, hc2] at r1 r2 r3
  simp only [memRawAt]
  rw [r3, k3, Complex.conj_re, ← o3, memDenom_toC, memDenom_toC, r1, r2, k1, k2, o1, o2]
  congr 3
  rw [show 2 * -θ = -(2 * θ) by ring, unit_neg, unit_neg, Complex.conj_conj, Complex.conj_conj]
  rw [← Complex.normSq_conj]
  congr 1
  simp only [map_sub, map_mul, map_one, Complex.conj_conj]

theorem memF_mirror (raw : Fin N → ℝ) : memF (Osu.Rot.mirE raw) = Osu.Rot.mirE (memF raw) := by
  funext j
  simp only [memF, Osu.Rot.mirE]
  have : ∑ j', raw (-j') = ∑ j', raw j' := Fintype.sum_equiv (Equiv.neg (Fin N)) _ _ (fun j' => by simp)
  rw [this]

/-- **MEM mirrors with its input on every uniform grid starting at 0** -/
theorem mem_grid_mirror (a1 b1 a2 b2 : ℝ) :
    memF (fun j : Fin N => memRawAt a1 (-b1) a2 (-b2) (thetaR (N := N) 0 j))
      = Osu.Rot.mirE (memF (fun j : Fin N => memRawAt a1 b1 a2 b2 (thetaR (N := N) 0 j))) := by
  rw [← memF_mirror]
  congr 1
  funext j
  simp only [Osu.Rot.mirE]
  rw [memRawAt_mirror]
  obtain ⟨q, hq⟩ := thetaR_neg (N := N) j
  rw [hq]
  have := memRawAt_periodic a1 b1 a2 b2 (-(thetaR (N := N) 0 j) + q * (2 * π)) q
  rw [← this]
  congr 1; ring

/-! ### an exact Newton step commutes with the mirror -/

open Matrix in
/-- generic: an exact step commutes with any orthogonal symmetry that conjugates the Jacobian -/
theorem stepSym_of_exact (L : List ℝ → List ℝ) (Q : Matrix (Fin 4) (Fin 4) ℝ) (θ0 Δ : ℝ)
    (hQ : Qᵀ * Q = 1) (hQ' : Q * Qᵀ = 1) (hvec : ∀ v, toVec (L v) = Q *ᵥ toVec v) (hlen : ∀ v, (L v).length = 4)
    (hJ : ∀ lam, toMat (jacobian (L lam) (gridDelta N Δ) (gridT (N := N) θ0))
      = Q * toMat (jacobian lam (gridDelta N Δ) (gridT (N := N) θ0)) * Qᵀ)
    (solve : List (List ℝ) → List ℝ → List ℝ) (hE : ExactSolve (N := N) solve θ0 Δ) :
    StepSym L solve (gridDelta N Δ) (gridT (N := N) θ0) := by
  refine ⟨?_, hE.length⟩
  intro lam g _ _
  set J := toMat (jacobian lam (gridDelta N Δ) (gridT (N := N) θ0)) with hJdef
  set x' := toVec (solve (jacobian (L lam) (gridDelta N Δ) (gridT (N := N) θ0)) (L g)) with hx'
  set y := toVec (solve (jacobian lam (gridDelta N Δ) (gridT (N := N) θ0)) g) with hy
  have h1 : (Q * J * Qᵀ) *ᵥ x' = Q *ᵥ toVec g := by
    rw [← hJ lam, ← hvec]
    exact hE.solves (L lam) (L g)
  have h2 : J *ᵥ (Qᵀ *ᵥ x') = toVec g := by
    have := congrArg (fun v => Qᵀ *ᵥ v) h1
    simp only [Matrix.mulVec_mulVec] at this
    rw [← Matrix.mul_assoc, ← Matrix.mul_assoc, hQ, Matrix.one_mul, Matrix.one_mulVec] at this
    rw [← Matrix.mulVec_mulVec] at this
    exact this
  have h3 : J *ᵥ y = toVec g := hE.solves lam g
  have h4 : Qᵀ *ᵥ x' = y := by
    have hz : J *ᵥ (Qᵀ *ᵥ x' - y) = 0 := by rw [Matrix.mulVec_sub, h2, h3, sub_self]
    exact sub_eq_zero.1 (hE.nonsingular lam _ hz)
  have h5 : x' = Q *ᵥ y := by rw [← h4, Matrix.mulVec_mulVec, hQ', Matrix.one_mulVec]
  apply list4_ext _ _ (hE.length _ _) (hlen _)
  intro m hm
  have := congrFun h5 ⟨m, hm⟩
  rw [← hvec] at this
  simpa [toVec, hx'] using this

open Matrix

/-- signs of the mirror: `(1, -1, 1, -1)` -/
def sgn (m : ℕ) : ℝ := if m % 2 = 0 then 1 else -1

noncomputable def Sm : Matrix (Fin 4) (Fin 4) ℝ := Matrix.diagonal fun i => sgn i

theorem Sm_sq : Smᵀ * Sm = 1 ∧ Sm * Smᵀ = 1 := by
  have h : ∀ i : Fin 4, sgn i * sgn i = 1 := by
    intro i; fin_cases i <;> simp [sgn]
  constructor
  · rw [Sm, Matrix.diagonal_transpose, Matrix.diagonal_mul_diagonal]
    ext i j; by_cases hij : i = j
    · subst hij; simp [h]
    · simp [hij]
  · rw [Sm, Matrix.diagonal_transpose, Matrix.diagonal_mul_diagonal]
    ext i j; by_cases hij : i = j
    · subst hij; simp [h]
    · simp [hij]

theorem toVec_mirLam (v : List ℝ) : toVec (mirLam v) = Sm *ᵥ toVec v := by
  funext i
  simp only [Sm, Matrix.mulVec_diagonal, toVec]
  fin_cases i <;> simp [mirLam, sgn]

theorem tw_neg (θ : ℝ) (m : ℕ) (hm : m < 4) : tw (-θ) m = sgn m * tw θ m := by
  interval_cases m <;> simp [tw, twiddleCol, sgn, Real.cos_neg, Real.sin_neg, mul_neg]

theorem weights_mirror (Δ : ℝ) (lam : List ℝ) :
    (fun j : Fin N => Δ * Real.exp (-(ipOf (mirLam lam) (twiddleCol (thetaR (N := N) 0 j)))))
      = Osu.Rot.mirE (fun j : Fin N => Δ * Real.exp (-(ipOf lam (twiddleCol (thetaR (N := N) 0 j))))) := by
  have := exponents_mirror (N := N) lam
  funext j
  have hj := congrFun this j
  simp only [Osu.Rot.mirE] at hj ⊢
  rw [hj]

theorem tw_mirror_index (j : Fin N) (m : ℕ) (hm : m < 4) :
    tw (thetaR (N := N) 0 (-j)) m = sgn m * tw (thetaR (N := N) 0 j) m := by
  obtain ⟨q, hq⟩ := thetaR_neg (N := N) j
  simp only [tw]
  rw [hq, twiddleCol_periodic]
  exact tw_neg _ m hm

theorem mom1_mirror (w : Fin N → ℝ) (m : ℕ) (hm : m < 4) :
    mom1 (N := N) 0 (Osu.Rot.mirE w) m = sgn m * mom1 (N := N) 0 w m := by
  simp only [mom1, Osu.Rot.mirE]
  rw [← Fintype.sum_equiv (Equiv.neg (Fin N)) (fun j => tw (thetaR (N := N) 0 (-j)) m * w j)
    (fun j => tw (thetaR (N := N) 0 j) m * w (-j)) (fun j => by simp)]
  rw [Finset.mul_sum]
  apply Finset.sum_congr rfl; intro j _
  rw [tw_mirror_index j m hm]; ring

theorem mom2_mirror (w : Fin N → ℝ) (m n : ℕ) (hm : m < 4) (hn : n < 4) :
    mom2 (N := N) 0 (Osu.Rot.mirE w) m n = sgn m * sgn n * mom2 (N := N) 0 w m n := by
  simp only [mom2, Osu.Rot.mirE]
  rw [← Fintype.sum_equiv (Equiv.neg (Fin N)) (fun j => tw (thetaR (N := N) 0 (-j)) m * tw (thetaR (N := N) 0 (-j)) n * w j)
    (fun j => tw (thetaR (N := N) 0 j) m * tw (thetaR (N := N) 0 j) n * w (-j)) (fun j => by simp)]
  rw [Finset.mul_sum]
  apply Finset.sum_congr rfl; intro j _
  rw [tw_mirror_index j m hm, tw_mirror_index j n hn]; ring

/-- `J(Sλ) = S J(λ) S`: the Jacobian of mirrored multipliers -/
theorem covEntry_mirror (Δ : ℝ) (lam : List ℝ) (m n : ℕ) (hm : m < 4) (hn : n < 4) :
    covEntry (mirLam lam) ((gridT (N := N) 0).zip (gridDelta N Δ)) m n
      = sgn m * sgn n * covEntry lam ((gridT (N := N) 0).zip (gridDelta N Δ)) m n := by
  simp only [covEntry_grid]
  rw [weights_mirror Δ lam]
  set w := fun j : Fin N => Δ * Real.exp (-(ipOf lam (twiddleCol (thetaR (N := N) 0 j))))
  have hZ : ∑ j, Osu.Rot.mirE w j = ∑ j, w j :=
    Fintype.sum_equiv (Equiv.neg (Fin N)) _ _ (fun j => by simp [Osu.Rot.mirE])
  simp only [covF, hZ, mom1_mirror w m hm, mom1_mirror w n hn, mom2_mirror w m n hm hn]
  ring

open Matrix in
theorem toMat_jacobian_mirror (Δ : ℝ) (hΔ : 0 < Δ) (lam : List ℝ) :
    toMat (jacobian (mirLam lam) (gridDelta N Δ) (gridT (N := N) 0))
      = Sm * toMat (jacobian lam (gridDelta N Δ) (gridT (N := N) 0)) * Smᵀ := by
  have hN : 0 < N := Nat.pos_of_ne_zero (NeZero.ne N)
  have hδ : ∀ d ∈ gridDelta N Δ, 0 < d := by
    intro d hd; simp only [gridDelta, List.mem_ofFn] at hd; obtain ⟨_, rfl⟩ := hd; exact hΔ
  have hT : gridT (N := N) 0 ≠ [] := by
    intro h; have := congrArg List.length h; simp [gridT] at this; omega
  have hd : gridDelta N Δ ≠ [] := by
    intro h; have := congrArg List.length h; simp [gridDelta] at this; omega
  have hcov : ∀ (l : List ℝ) (a b : ℕ), a < 4 → b < 4 →
      ((jacobian l (gridDelta N Δ) (gridT (N := N) 0)).getD a []).getD b 0 = covEntry l ((gridT (N := N) 0).zip (gridDelta N Δ)) a b := by
    intro l a b ha hb
    rw [jacobian_getD _ _ _ _ _ ha hb]
    split
    · exact jacEntry_closed _ _ _ _ _ hb hδ hT hd
    · rw [jacEntry_closed _ _ _ _ _ ha hδ hT hd, covEntry_symm]
  ext m n
  rw [Sm, Matrix.diagonal_transpose, Matrix.mul_diagonal, Matrix.diagonal_mul]
  simp only [toMat]
  rw [hcov _ m n m.2 n.2, covEntry_mirror Δ lam m n m.2 n.2, hcov _ m n m.2 n.2]
  ring

/-- an exact Newton step commutes with the mirror image -/
theorem stepSym_mirror_of_exact (solve : List (List ℝ) → List ℝ → List ℝ) (Δ : ℝ) (hΔ : 0 < Δ)
    (hE : ExactSolve (N := N) solve 0 Δ) : StepSym mirLam solve (gridDelta N Δ) (gridT (N := N) 0) :=
  stepSym_of_exact mirLam Sm 0 Δ Sm_sq.1 Sm_sq.2 toVec_mirLam (fun _ => rfl) (toMat_jacobian_mirror Δ hΔ) solve hE

/-- **MEM2 / Newton with an exact linear solver mirrors with its input** -/
theorem mem2Newton_mirror_exact (solve : List (List ℝ) → List ℝ → List ℝ) (atol : ℝ) (maxIter lsDepth : ℕ) (Δ : ℝ) (hΔ : 0 < Δ)
    (hE : ExactSolve (N := N) solve 0 Δ) (a1 b1 a2 b2 : ℝ) :
    ∃ D : Fin N → ℝ,
      mem2Newton solve atol maxIter lsDepth [a1, b1, a2, b2] (gridDelta N Δ) (gridT (N := N) 0) = List.ofFn D ∧
      mem2Newton solve atol maxIter lsDepth [a1, -b1, a2, -b2] (gridDelta N Δ) (gridT (N := N) 0)
        = List.ofFn (Osu.Rot.mirE D) :=
  mem2Newton_mirror solve atol maxIter lsDepth Δ (stepSym_mirror_of_exact solve Δ hΔ hE) a1 b1 a2 b2

end Osu.Est
