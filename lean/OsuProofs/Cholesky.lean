import OsuProofs.Estimators
import Mathlib.Tactic.LinearCombination
import Mathlib.Tactic.FieldSimp

/-! `solve_cholesky` on a symmetric 4×4 system (the Newton step of MEM2): whenever it returns a
vector (all pivots positive) that vector solves the system exactly (over ℝ). -/
namespace Osu.Est

open Osu

theorem cholRow0 (a0 : ℝ) (rest : List ℝ) (rhs : ℝ) :
    cholRow (a0 :: rest) rhs [] [] [] 0 =
      if a0 ≤ 0 then none else some ([Real.sqrt a0], 1 / Real.sqrt a0, rhs * (1 / Real.sqrt a0)) := by
  simp [cholRow, lsum, Transc.sqrt]

theorem cholRow1 (a0 a1 : ℝ) (rest : List ℝ) (rhs l00 i0 y0 : ℝ) :
    cholRow (a0 :: a1 :: rest) rhs [[l00]] [i0] [y0] 1 =
      if a1 - (i0 * a0) * (i0 * a0) ≤ 0 then none
      else some ([i0 * a0, Real.sqrt (a1 - (i0 * a0) * (i0 * a0))], 1 / Real.sqrt (a1 - (i0 * a0) * (i0 * a0)),
        (rhs - i0 * a0 * y0) * (1 / Real.sqrt (a1 - (i0 * a0) * (i0 * a0)))) := by
  simp [cholRow, lsum, dotPrefix, Transc.sqrt, List.range, List.range.loop]

theorem cholRow2 (a0 a1 a2 : ℝ) (rest : List ℝ) (rhs l00 l10 l11 i0 i1 y0 y1 : ℝ) :
    cholRow (a0 :: a1 :: a2 :: rest) rhs [[l00], [l10, l11]] [i0, i1] [y0, y1] 2 =
      if a2 - ((i0 * a0) * (i0 * a0) + (i1 * (a1 - i0 * a0 * l10)) * (i1 * (a1 - i0 * a0 * l10))) ≤ 0 then none
      else some ([i0 * a0, i1 * (a1 - i0 * a0 * l10),
          Real.sqrt (a2 - ((i0 * a0) * (i0 * a0) + (i1 * (a1 - i0 * a0 * l10)) * (i1 * (a1 - i0 * a0 * l10))))],
        1 / Real.sqrt (a2 - ((i0 * a0) * (i0 * a0) + (i1 * (a1 - i0 * a0 * l10)) * (i1 * (a1 - i0 * a0 * l10)))),
        (rhs - i0 * a0 * y0 - i1 * (a1 - i0 * a0 * l10) * y1) *
          (1 / Real.sqrt (a2 - ((i0 * a0) * (i0 * a0) + (i1 * (a1 - i0 * a0 * l10)) * (i1 * (a1 - i0 * a0 * l10)))))) := by
  simp [cholRow, lsum, dotPrefix, Transc.sqrt, List.range, List.range.loop]


theorem cholRow3 (a0 a1 a2 a3 : ℝ) (rest : List ℝ) (rhs l00 l10 l11 l20 l21 l22 i0 i1 i2 y0 y1 y2 : ℝ) :
    cholRow (a0 :: a1 :: a2 :: a3 :: rest) rhs [[l00], [l10, l11], [l20, l21, l22]] [i0, i1, i2] [y0, y1, y2] 3 =
      if a3 - ((i0 * a0) * (i0 * a0) + ((i1 * (a1 - i0 * a0 * l10)) * (i1 * (a1 - i0 * a0 * l10)) +
            (i2 * (a2 - (i0 * a0 * l20 + i1 * (a1 - i0 * a0 * l10) * l21))) * (i2 * (a2 - (i0 * a0 * l20 + i1 * (a1 - i0 * a0 * l10) * l21))))) ≤ 0 then none
      else some ([i0 * a0, i1 * (a1 - i0 * a0 * l10), i2 * (a2 - (i0 * a0 * l20 + i1 * (a1 - i0 * a0 * l10) * l21)),
          Real.sqrt (a3 - ((i0 * a0) * (i0 * a0) + ((i1 * (a1 - i0 * a0 * l10)) * (i1 * (a1 - i0 * a0 * l10)) +
            (i2 * (a2 - (i0 * a0 * l20 + i1 * (a1 - i0 * a0 * l10) * l21))) * (i2 * (a2 - (i0 * a0 * l20 + i1 * (a1 - i0 * a0 * l10) * l21))))))],
        1 / Real.sqrt (a3 - ((i0 * a0) * (i0 * a0) + ((i1 * (a1 - i0 * a0 * l10)) * (i1 * (a1 - i0 * a0 * l10)) +
            (i2 * (a2 - (i0 * a0 * l20 + i1 * (a1 - i0 * a0 * l10) * l21))) * (i2 * (a2 - (i0 * a0 * l20 + i1 * (a1 - i0 * a0 * l10) * l21)))))),
        (rhs - i0 * a0 * y0 - i1 * (a1 - i0 * a0 * l10) * y1 - i2 * (a2 - (i0 * a0 * l20 + i1 * (a1 - i0 * a0 * l10) * l21)) * y2) *
          (1 / Real.sqrt (a3 - ((i0 * a0) * (i0 * a0) + ((i1 * (a1 - i0 * a0 * l10)) * (i1 * (a1 - i0 * a0 * l10)) +
            (i2 * (a2 - (i0 * a0 * l20 + i1 * (a1 - i0 * a0 * l10) * l21))) * (i2 * (a2 - (i0 * a0 * l20 + i1 * (a1 - i0 * a0 * l10) * l21)))))))) := by
  simp [cholRow, lsum, dotPrefix, Transc.sqrt, List.range, List.range.loop]

/-- back substitution on an explicit 4×4 factor -/
theorem cholBackward4 (l00 l10 l11 l20 l21 l22 l30 l31 l32 l33 i0 i1 i2 i3 y0 y1 y2 y3 : ℝ) :
    cholBackward [[l00], [l10, l11], [l20, l21, l22], [l30, l31, l32, l33]] [i0, i1, i2, i3] [y0, y1, y2, y3] 4 [] =
      [ (y0 - l10 * ((y1 - l21 * ((y2 - l32 * (y3 * i3)) * i2) - l31 * (y3 * i3)) * i1)
            - l20 * ((y2 - l32 * (y3 * i3)) * i2) - l30 * (y3 * i3)) * i0,
        (y1 - l21 * ((y2 - l32 * (y3 * i3)) * i2) - l31 * (y3 * i3)) * i1,
        (y2 - l32 * (y3 * i3)) * i2,
        y3 * i3 ] := by
  simp [cholBackward]


/-- the algebra: `L Lᵀ = A` on the lower triangle, `L y = b`, `Lᵀ x = y` give `A x = b` -/
theorem chol4_math (a00 a10 a11 a20 a21 a22 a30 a31 a32 a33 b0 b1 b2 b3 d0 d1 d2 d3 : ℝ)
    (n0 : d0 ≠ 0) (n1 : d1 ≠ 0) (n2 : d2 ≠ 0) (n3 : d3 ≠ 0)
    (e0 : d0 * d0 = a00)
    (e1 : d1 * d1 = a11 - 1 / d0 * a10 * (1 / d0 * a10))
    (e2 : d2 * d2 = a22 - (1 / d0 * a20 * (1 / d0 * a20) +
      1 / d1 * (a21 - 1 / d0 * a20 * (1 / d0 * a10)) * (1 / d1 * (a21 - 1 / d0 * a20 * (1 / d0 * a10)))))
    (e3 : d3 * d3 = a33 - (1 / d0 * a30 * (1 / d0 * a30) +
      (1 / d1 * (a31 - 1 / d0 * a30 * (1 / d0 * a10)) * (1 / d1 * (a31 - 1 / d0 * a30 * (1 / d0 * a10))) +
        1 / d2 * (a32 - (1 / d0 * a30 * (1 / d0 * a20) + 1 / d1 * (a31 - 1 / d0 * a30 * (1 / d0 * a10)) * (1 / d1 * (a21 - 1 / d0 * a20 * (1 / d0 * a10))))) *
          (1 / d2 * (a32 - (1 / d0 * a30 * (1 / d0 * a20) + 1 / d1 * (a31 - 1 / d0 * a30 * (1 / d0 * a10)) * (1 / d1 * (a21 - 1 / d0 * a20 * (1 / d0 * a10))))))))) :
    let l10 := 1 / d0 * a10
    let l20 := 1 / d0 * a20
    let l21 := 1 / d1 * (a21 - l20 * l10)
    let l30 := 1 / d0 * a30
    let l31 := 1 / d1 * (a31 - l30 * l10)
    let l32 := 1 / d2 * (a32 - (l30 * l20 + l31 * l21))
    let y0 := b0 * (1 / d0)
    let y1 := (b1 - l10 * y0) * (1 / d1)
    let y2 := (b2 - l20 * y0 - l21 * y1) * (1 / d2)
    let y3 := (b3 - l30 * y0 - l31 * y1 - l32 * y2) * (1 / d3)
    let x3 := y3 * (1 / d3)
    let x2 := (y2 - l32 * x3) * (1 / d2)
    let x1 := (y1 - l21 * x2 - l31 * x3) * (1 / d1)
    let x0 := (y0 - l10 * x1 - l20 * x2 - l30 * x3) * (1 / d0)
    a00 * x0 + a10 * x1 + a20 * x2 + a30 * x3 = b0 ∧
    a10 * x0 + a11 * x1 + a21 * x2 + a31 * x3 = b1 ∧
    a20 * x0 + a21 * x1 + a22 * x2 + a32 * x3 = b2 ∧
    a30 * x0 + a31 * x1 + a32 * x2 + a33 * x3 = b3 := by
  intro l10 l20 l21 l30 l31 l32 y0 y1 y2 y3 x3 x2 x1 x0
  have r10 : l10 * d0 = a10 := by simp only [l10]; field_simp
  have r20 : l20 * d0 = a20 := by simp only [l20]; field_simp
  have r30 : l30 * d0 = a30 := by simp only [l30]; field_simp
  have r21 : l21 * d1 = a21 - l20 * l10 := by simp only [l21]; field_simp
  have r31 : l31 * d1 = a31 - l30 * l10 := by simp only [l31]; field_simp
  have r32 : l32 * d2 = a32 - (l30 * l20 + l31 * l21) := by simp only [l32]; field_simp
  have e1' : d1 * d1 = a11 - l10 * l10 := e1
  have e2' : d2 * d2 = a22 - (l20 * l20 + l21 * l21) := e2
  have e3' : d3 * d3 = a33 - (l30 * l30 + (l31 * l31 + l32 * l32)) := e3
  have ry0 : y0 * d0 = b0 := by simp only [y0]; field_simp
  have ry1 : y1 * d1 = b1 - l10 * y0 := by simp only [y1]; field_simp
  have ry2 : y2 * d2 = b2 - l20 * y0 - l21 * y1 := by simp only [y2]; field_simp
  have ry3 : y3 * d3 = b3 - l30 * y0 - l31 * y1 - l32 * y2 := by simp only [y3]; field_simp
  have rx3 : x3 * d3 = y3 := by simp only [x3]; field_simp
  have rx2 : x2 * d2 = y2 - l32 * x3 := by simp only [x2]; field_simp
  have rx1 : x1 * d1 = y1 - l21 * x2 - l31 * x3 := by simp only [x1]; field_simp
  have rx0 : x0 * d0 = y0 - l10 * x1 - l20 * x2 - l30 * x3 := by simp only [x0]; field_simp
  clear_value l10 l20 l21 l30 l31 l32 y0 y1 y2 y3 x3 x2 x1 x0
  refine ⟨?_, ?_, ?_, ?_⟩
  · linear_combination (-x0) * e0 - x1 * r10 - x2 * r20 - x3 * r30 + ry0 + d0 * rx0
  · linear_combination (-x0) * r10 - x1 * e1' - x2 * r21 - x3 * r31 + l10 * rx0 + d1 * rx1 + ry1
  · linear_combination (-x0) * r20 - x1 * r21 - x2 * e2' - x3 * r32 + l20 * rx0 + l21 * rx1 + d2 * rx2 + ry2
  · linear_combination (-x0) * r30 - x1 * r31 - x2 * r32 - x3 * e3' + l30 * rx0 + l31 * rx1 + l32 * rx2 + d3 * rx3 + ry3


/-- **`solve_cholesky` solves the system**: for every symmetric 4×4 matrix (given by its lower
triangle) and right-hand side, a returned vector `x` satisfies `A x = b` exactly -/
theorem cholSolve4_solves (a00 a10 a11 a20 a21 a22 a30 a31 a32 a33 b0 b1 b2 b3 : ℝ) (x : List ℝ)
    (h : cholSolve [[a00, a10, a20, a30], [a10, a11, a21, a31], [a20, a21, a22, a32], [a30, a31, a32, a33]]
      [b0, b1, b2, b3] = some x) :
    ∃ x0 x1 x2 x3 : ℝ, x = [x0, x1, x2, x3] ∧
      a00 * x0 + a10 * x1 + a20 * x2 + a30 * x3 = b0 ∧
      a10 * x0 + a11 * x1 + a21 * x2 + a31 * x3 = b1 ∧
      a20 * x0 + a21 * x1 + a22 * x2 + a32 * x3 = b2 ∧
      a30 * x0 + a31 * x1 + a32 * x2 + a33 * x3 = b3 := by
  simp only [cholSolve, List.length_cons, List.length_nil, Nat.zero_add, Nat.reduceAdd, cholForward,
    List.getD_cons_zero, List.getD_cons_succ, cholRow0] at h
  by_cases hp0 : a00 ≤ 0
  · rw [if_pos hp0] at h; simp at h
  rw [if_neg hp0] at h
  have e0 : √a00 * √a00 = a00 := Real.mul_self_sqrt (le_of_lt (not_le.1 hp0))
  have n0 : √a00 ≠ 0 := (Real.sqrt_pos.2 (not_le.1 hp0)).ne'
  generalize √a00 = d0 at *
  simp only [List.nil_append, cholRow1] at h
  by_cases hp1 : a11 - 1 / d0 * a10 * (1 / d0 * a10) ≤ 0
  · rw [if_pos hp1] at h; simp at h
  rw [if_neg hp1] at h
  have e1 := Real.mul_self_sqrt (le_of_lt (not_le.1 hp1))
  have n1 := (Real.sqrt_pos.2 (not_le.1 hp1)).ne'
  generalize √(a11 - 1 / d0 * a10 * (1 / d0 * a10)) = d1 at *
  simp only [List.cons_append, List.nil_append, cholRow2] at h
  by_cases hp2 : a22 - (1 / d0 * a20 * (1 / d0 * a20) +
      1 / d1 * (a21 - 1 / d0 * a20 * (1 / d0 * a10)) * (1 / d1 * (a21 - 1 / d0 * a20 * (1 / d0 * a10)))) ≤ 0
  · rw [if_pos hp2] at h; simp at h
  rw [if_neg hp2] at h
  have e2 := Real.mul_self_sqrt (le_of_lt (not_le.1 hp2))
  have n2 := (Real.sqrt_pos.2 (not_le.1 hp2)).ne'
  generalize √(a22 - (1 / d0 * a20 * (1 / d0 * a20) +
      1 / d1 * (a21 - 1 / d0 * a20 * (1 / d0 * a10)) * (1 / d1 * (a21 - 1 / d0 * a20 * (1 / d0 * a10))))) = d2 at *
  simp only [List.cons_append, List.nil_append, cholRow3] at h
  by_cases hp3 : a33 - (1 / d0 * a30 * (1 / d0 * a30) +
      (1 / d1 * (a31 - 1 / d0 * a30 * (1 / d0 * a10)) * (1 / d1 * (a31 - 1 / d0 * a30 * (1 / d0 * a10))) +
        1 / d2 * (a32 - (1 / d0 * a30 * (1 / d0 * a20) + 1 / d1 * (a31 - 1 / d0 * a30 * (1 / d0 * a10)) * (1 / d1 * (a21 - 1 / d0 * a20 * (1 / d0 * a10))))) *
          (1 / d2 * (a32 - (1 / d0 * a30 * (1 / d0 * a20) + 1 / d1 * (a31 - 1 / d0 * a30 * (1 / d0 * a10)) * (1 / d1 * (a21 - 1 / d0 * a20 * (1 / d0 * a10)))))))) ≤ 0
  · rw [if_pos hp3] at h; simp at h
  rw [if_neg hp3] at h
  have e3 := Real.mul_self_sqrt (le_of_lt (not_le.1 hp3))
  have n3 := (Real.sqrt_pos.2 (not_le.1 hp3)).ne'
  generalize √(a33 - (1 / d0 * a30 * (1 / d0 * a30) +
      (1 / d1 * (a31 - 1 / d0 * a30 * (1 / d0 * a10)) * (1 / d1 * (a31 - 1 / d0 * a30 * (1 / d0 * a10))) +
        1 / d2 * (a32 - (1 / d0 * a30 * (1 / d0 * a20) + 1 / d1 * (a31 - 1 / d0 * a30 * (1 / d0 * a10)) * (1 / d1 * (a21 - 1 / d0 * a20 * (1 / d0 * a10))))) *
          (1 / d2 * (a32 - (1 / d0 * a30 * (1 / d0 * a20) + 1 / d1 * (a31 - 1 / d0 * a30 * (1 / d0 * a10)) * (1 / d1 * (a21 - 1 / d0 * a20 * (1 / d0 * a10))))))))) = d3 at *
  simp only [List.cons_append, List.nil_append, cholBackward4, Option.some.injEq] at h
  subst h
  exact ⟨_, _, _, _, rfl, chol4_math a00 a10 a11 a20 a21 a22 a30 a31 a32 a33 b0 b1 b2 b3 d0 d1 d2 d3 n0 n1 n2 n3 e0 e1 e2 e3⟩

end Osu.Est
