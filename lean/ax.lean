import OsuProps.C08
#print axioms Osu.Props.C08.st4Dissipation_support
#print axioms Osu.Props.C08.dissipation_of_empty_spectrum
#print axioms Osu.Props.C08.st6Dissipation_nonpos
