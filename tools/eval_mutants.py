#!/usr/bin/env python3
"""Evaluate seeded mutants:  tools/eval_mutants.py C18 /tmp/seed_C18/_mutants [--checks C18,C19] [--keep]

For each m<k>/ : (1) confirm the demonstration passes on the unchanged tree and fails with the patch,
in a scratch worktree; (2) apply the patch to /repo, run the quick check(s), undo; (3) optionally copy
the mutant into /verif/seeded/<id>-<k>/ with meta.json.
"""
import json
import os
import shutil
import subprocess
import sys
from pathlib import Path

VERIF = Path(__file__).resolve().parents[1]
REPO = os.environ.get("OSU_REPO", "/repo")   # a scratch clone for a parallel lane; default: /repo itself
SEEDED = Path(os.environ.get("OSU_SEEDED", str(VERIF / "seeded")))


def sh(cmd, cwd=None, env=None, timeout=3600):
    p = subprocess.run(cmd, cwd=cwd, env=env, stdout=subprocess.PIPE, stderr=subprocess.STDOUT, text=True,
                       timeout=timeout, shell=isinstance(cmd, str))
    return p.returncode, p.stdout


def main():
    prop = sys.argv[1]
    mdir = Path(sys.argv[2])
    checks = [prop]
    keep = "--keep" in sys.argv
    prefix = ""
    for a in sys.argv[3:]:
        if a.startswith("--checks"):
            checks = sys.argv[sys.argv.index(a) + 1].split(",")
        if a == "--prefix":
            prefix = sys.argv[sys.argv.index(a) + 1]     # e.g. r2 -> seeded/C08-r2m1
    wt = Path(f"/tmp/evalwt_{prop}")
    if wt.exists():
        sh(["git", "-C", "/repo", "worktree", "remove", "--force", str(wt)])
    rc, out = sh(["git", "-C", "/repo", "worktree", "add", "-q", "--detach", str(wt), "HEAD"])
    assert rc == 0, out
    results = []
    try:
        for m in sorted(p for p in mdir.iterdir() if p.is_dir()):
            patch = m / "patch.diff"
            demo = m / "demo.py"
            if not patch.exists() or not demo.exists():
                continue
            r = {"mutant": m.name}
            env = dict(os.environ, PYTHONPATH=str(wt / "src"), NUMBA_CACHE_DIR=f"/tmp/evalnb_{prop}_clean")
            rc0, out0 = sh(["/venv/bin/python", str(demo), str(wt / "src")], cwd=str(m), env=env)
            rca, outa = sh(["git", "-C", str(wt), "apply", str(patch)])
            r["applies"] = rca == 0
            env2 = dict(env, NUMBA_CACHE_DIR=f"/tmp/evalnb_{prop}_{m.name}")
            rc1, out1 = sh(["/venv/bin/python", str(demo), str(wt / "src")], cwd=str(m), env=env2)
            sh(["git", "-C", str(wt), "checkout", "--", "."])
            r["demo_clean_rc"], r["demo_mutant_rc"] = rc0, rc1
            r["confirmed"] = rc0 == 0 and rc1 != 0 and rca == 0
            # run our checks on /repo with the patch applied
            rca, outa = sh(["git", "-C", REPO, "apply", str(patch)])
            r["applies_repo"] = rca == 0
            r["checks"] = {}
            try:
                if rca == 0:
                    for c in checks:
                        rc, out = sh(["./check", c, "--tier", "quick"], cwd=str(VERIF), timeout=3600)
                        vio = [ln for ln in out.splitlines() if ln.startswith("VIOLATION")]
                        r["checks"][c] = {"exit": rc, "violation": vio[:1], "tail": out.splitlines()[-1:]}
            finally:
                sh(["git", "-C", REPO, "checkout", "--", "."])
                sh([sys.executable, str(VERIF / "tools" / "py2lean.py")])   # regenerated files follow /repo
                sh([sys.executable, str(VERIF / "tools" / "py2lean_arith.py")])
                sh([sys.executable, str(VERIF / "tools" / "py2lean_spec.py")])
            r["caught"] = any(v["exit"] == 1 for v in r["checks"].values())
            results.append(r)
            print(json.dumps(r))
            if keep and r["confirmed"]:
                dst = SEEDED / f"{prop}-{prefix}{m.name}"
                dst.mkdir(parents=True, exist_ok=True)
                shutil.copy(patch, dst / "patch.diff")
                shutil.copy(demo, dst / "demo.py")
                notes = (m / "notes.txt").read_text() if (m / "notes.txt").exists() else ""
                (dst / "meta.json").write_text(json.dumps({
                    "property": prop, "needs_to_manifest": notes.strip(),
                    "confirmed": {"demo_exit_unchanged": rc0, "demo_exit_with_patch": rc1,
                                  "how": "demo.py run in a scratch worktree of /repo HEAD with and without patch.diff; the test-suite statement is the seeding agent's (module not imported by any collected test, re-checked by grep)"},
                    "checks_run": r["checks"], "caught_by": [c for c, v in r["checks"].items() if v["exit"] == 1],
                }, indent=1))
    finally:
        sh(["git", "-C", "/repo", "worktree", "remove", "--force", str(wt)])
        sh(f"rm -rf /tmp/evalnb_{prop}_*")
    print("SUMMARY", prop, [(r["mutant"], r["confirmed"], r["caught"]) for r in results])


if __name__ == "__main__":
    main()
