#!/usr/bin/env python3
"""Third tie: translate the closed-form *glue* of the spectrum object and of the source-term point kernels into
Lean definitions over ℝ.  Rebuilt from /repo's current source on every run of the checks that use it;
`OsuProps/C0xGen.lean` / `C0xGlue.lean` prove each generated definition equal to the hand-written model definition.

Two kinds of unit (anything outside the subset fails loudly; the check then reports that the tie broke):

  RET    the value a (class) method returns: docstring | Name = expr | return expr
  SLICE  selected assignments of a larger function, in source order, as a let-chain whose value is the last one.
         A wanted target is written as its source text: `name`, `output[mask]`, `dataset["key"]`.
         `if c: name = e` (no else) on a wanted name becomes `let name := if c then e else name`;
         `if c: … name = e1 … else: name = e2` is not in the subset.
  LOOP   the innermost body of a numba loop nest, as a function of scalars: the statements of the enclosing loop
         bodies that precede the inner loop are lets, `a[i]`/`a[i, j]` with loop indices are scalars named in `attrs`,
         `if c: <lets>; out[i, j] = e1  else: out[i, j] = e2` is the value.

Expressions: those of tools/py2lean_arith.py plus `xarray.DataArray(x)` (identity), `x % p` for any p
(`x - p * floor(x / p)`: Python and numpy define the float remainder that way for either sign of p),
`self.frequency_moment(<int literal>, fmin, fmax)` (= `moment <literal>` with `moment : ℕ → ℝ` a parameter),
a call / attribute / subscript whose exact source text is listed in `attrs` (an opaque scalar parameter).
"""
import ast
import os
import sys
from pathlib import Path

sys.path.insert(0, str(Path(__file__).resolve().parent))
from py2lean_arith import Tr, Unsupported, FUNCS, lit  # noqa: E402

REPO = Path(os.environ.get("OSU_REPO", "/repo")) / "src/ocean_science_utilities"
SPEC = "wavespectra/spectrum.py"
BAND = "fmin, fmax"

# (file, qualified name, Lean name, [(param, type)], attrs)
RET = [
    (SPEC, "WaveSpectrum.m0", "m0", [("moment", "ℕ → ℝ")], {}),
    (SPEC, "WaveSpectrum.m1", "m1", [("moment", "ℕ → ℝ")], {}),
    (SPEC, "WaveSpectrum.m2", "m2", [("moment", "ℕ → ℝ")], {}),
    (SPEC, "WaveSpectrum.hm0", "hm0", [("m0", "ℝ")], {f"self.m0({BAND})": "m0"}),
    (SPEC, "WaveSpectrum.tm01", "tm01", [("m0", "ℝ"), ("m1", "ℝ")], {f"self.m0({BAND})": "m0", f"self.m1({BAND})": "m1"}),
    (SPEC, "WaveSpectrum.tm02", "tm02", [("m0", "ℝ"), ("m2", "ℝ")], {f"self.m0({BAND})": "m0", f"self.m2({BAND})": "m2"}),
    (SPEC, "WaveSpectrum._mean_direction", "mean_direction", [("a1", "ℝ"), ("b1", "ℝ")], {}),
    (SPEC, "WaveSpectrum._spread", "spread", [("a1", "ℝ"), ("b1", "ℝ")], {}),
    (SPEC, "WaveSpectrum.peak_angular_frequency", "peak_angular_frequency", [("fp", "ℝ")],
     {f"self.peak_frequency({BAND})": "fp"}),
    (SPEC, "WaveSpectrum.wavelength", "wavelength", [("k", "ℝ")], {"self.wavenumber": "k"}),
    (SPEC, "WaveSpectrum.wave_speed", "wave_speed", [("k", "ℝ"), ("w", "ℝ")],
     {"self.wavenumber": "k", "self.radian_frequency": "w"}),
    (SPEC, "WaveSpectrum.peak_wave_speed", "peak_wave_speed", [("fp", "ℝ"), ("kp", "ℝ")],
     {"self.peak_frequency()": "fp", "self.peak_wavenumber": "kp"}),
    (SPEC, "WaveSpectrum.significant_waveheight", "significant_waveheight", [("hm0_default", "ℝ")], {"self.hm0()": "hm0_default"}),
    (SPEC, "WaveSpectrum.mean_period", "mean_period", [("tm01_default", "ℝ")], {"self.tm01()": "tm01_default"}),
    (SPEC, "WaveSpectrum.zero_crossing_period", "zero_crossing_period", [("tm02_default", "ℝ")], {"self.tm02()": "tm02_default"}),
]
# (file, qualified name, Lean name, [(param, type)], wanted targets, attrs, top-level statements only?)
SLICE = [
    (SPEC, "WaveSpectrum.peak_period", "peak_period", [("fp", "ℝ")], ["peak_period"],
     {"self.peak_frequency(fmin, fmax, use_spline=use_spline, **kwargs)": "fp"}, True),
    (SPEC, "WaveSpectrum.radian_frequency", "radian_frequency", [("f", "ℝ")], ["data_array"],
     {"self.dataset[NAME_F]": "f"}, True),
    (SPEC, "FrequencyDirectionSpectrum.radian_direction", "radian_direction", [("d", "ℝ")], ["data_array"],
     {"self.dataset[NAME_D]": "d"}, True),
    ("tools/math.py", "wrapped_difference", "default_discont", [("period", "ℝ")], ["discont"], {}, False),
    ("tools/math.py", "wrapped_difference", "wrapped_difference", [("delta", "ℝ"), ("period", "ℝ"), ("discont", "ℝ")],
     ["output[mask]"], {"delta[mask]": "delta"}, False),
    (SPEC, "FrequencyDirectionSpectrum.direction_step", "direction_step", [("cyclic_difference", "ℝ")], ["difference"],
     {"np.diff(self.direction.values, append=self.direction[0])": "cyclic_difference"}, True),
]
# numba loop nests: (file, function, Lean name, [(param, type)], pre-loop wanted assignments, attrs)
ST4 = "wavephysics/balance/st4_wind_input.py"
LOOP = [
    (ST4, "_st4_wind_generation_point", "st4_wind_generation_bin",
     [("variance_density_bin", "ℝ"), ("wavenumber_bin", "ℝ"), ("radian_frequency_bin", "ℝ"),
      ("cosine_bin", "ℝ"), ("friction_velocity", "ℝ"), ("roughness_length", "ℝ"),
      ("vonkarman_constant", "ℝ"), ("betamax", "ℝ"), ("air_density", "ℝ"), ("water_density", "ℝ"),
      ("wave_age_tuning_parameter", "ℝ")],
     ["constant_factor", "cosine_wave_age_tuning"],
     {"variance_density[frequency_index, direction_index]": "variance_density_bin",
      "wavenumber[frequency_index]": "wavenumber_bin",
      "radian_frequency[frequency_index]": "radian_frequency_bin",
      "cosine_mutual_angle_wind_waves[direction_index]": "cosine_bin",
      "cosine_mutual_angle_wind_waves": "cosine_bin",          # elementwise product before the loop
      "cosine_wave_age_tuning[direction_index]": "cosine_wave_age_tuning",
      'parameters["growth_parameter_betamax"]': "betamax", 'parameters["air_density"]': "air_density",
      'parameters["water_density"]': "water_density",
      'parameters["wave_age_tuning_parameter"]': "wave_age_tuning_parameter"}),
]
ST6 = "wavephysics/balance/st6_wave_breaking.py"
LOOP += [
    (ST6, "st6_dissipation", "st6_relative_exceedence",
     [("saturation_bin", "ℝ"), ("saturation_threshold", "ℝ")], [],
     {"saturation_spectrum[frequency_index]": "saturation_bin"}),
    (ST6, "st6_inherent", "st6_inherent_bin",
     [("variance_density_bin", "ℝ"), ("exceedence_bin", "ℝ"), ("frequency_bin", "ℝ"), ("a1", "ℝ"), ("p1", "ℕ")], [],
     {"variance_density[frequency_index, direction_index]": "variance_density_bin",
      "relative_saturation_exceedence[frequency_index]": "exceedence_bin",
      "frequency[frequency_index]": "frequency_bin", "**p1": "ℕ"}),
    (ST6, "st6_cumulative", "st6_cumulative_bin",
     [("variance_density_bin", "ℝ"), ("run_sum", "ℝ"), ("a2", "ℝ"), ("p2", "ℕ")], [],
     {"variance_density[frequency_index, direction_index]": "variance_density_bin", "run_sum": "run_sum", "**p2": "ℕ"}),
]
SLICE += [
    (ST6, "st6_cumulative", "st6_run_sum_increment", [("exceedence_bin", "ℝ"), ("frequency_step_bin", "ℝ")], ["run_sum+="],
     {"relative_saturation_exceedence[frequency_index]": "exceedence_bin",
      "frequency_step[frequency_index]": "frequency_step_bin"}, False),
    (ST6, "st6_cumulative", "st6_run_sum_start", [], ["run_sum"], {}, True),
    (ST6, "st6_dissipation", "st6_saturation", [("frequency_spectrum", "ℝ"), ("group_velocity", "ℝ"), ("wavenumber", "ℝ")],
     ["saturation_spectrum"], {}, True),
    (ST6, "st6_inherent", "st6_frequency", [("radian_frequency", "ℝ")], ["frequency"],
     {'spectral_grid["radian_frequency"]': "radian_frequency"}, True),
    (ST4, "_st4_wind_generation_point", "st4_friction_velocity_from_u10",
     [("wind_forcing", "ℝ"), ("vonkarman_constant", "ℝ"), ("elevation", "ℝ"), ("roughness_length", "ℝ")],
     ["friction_velocity#0"], {'parameters["elevation"]': "elevation"}, False),
    (ST4, "_st4_wind_generation_point", "st4_cosine_mutual_angle",
     [("radian_direction", "ℝ"), ("wind_direction_degrees", "ℝ")],
     ["cosine_mutual_angle_wind_waves"], {'spectral_grid["radian_direction"]': "radian_direction"}, True),
]


def norm(s):
    return s.replace("'", '"')


class Tr2(Tr):
    def expr(self, e):
        if isinstance(e, (ast.Call, ast.Attribute, ast.Subscript, ast.Name)):
            key = norm(ast.unparse(e))
            if key in self.attrs:
                return self.attrs[key]
        if isinstance(e, ast.Call):
            name = ast.unparse(e.func)
            if name == "xarray.DataArray" and len(e.args) == 1 and not e.keywords:
                return self.expr(e.args[0])
            if name == "self.frequency_moment" and len(e.args) == 3 and not e.keywords and \
                    isinstance(e.args[0], ast.Constant) and isinstance(e.args[0].value, int) and e.args[0].value >= 0 and \
                    ast.unparse(e.args[1]) == "fmin" and ast.unparse(e.args[2]) == "fmax":
                return f"(moment {e.args[0].value})"
            if name == "wrapped_difference" and len(e.args) == 1 and [k.arg for k in e.keywords] == ["period"]:
                p = self.expr(e.keywords[0].value)
                return f"(wrapped_difference {self.expr(e.args[0])} {p} (default_discont {p}))"
        if isinstance(e, ast.BinOp) and isinstance(e.op, ast.Pow) and isinstance(e.right, ast.Name) \
                and self.attrs.get("**" + e.right.id) == "ℕ":
            # an exponent that is a parameter of the scheme with an integer value (numba float power with an
            # integer-valued exponent = repeated multiplication); the Lean parameter has type ℕ
            return f"({self.expr(e.left)} ^ {e.right.id})"
        if isinstance(e, ast.BinOp) and isinstance(e.op, ast.Mod):
            l, r = self.expr(e.left), self.expr(e.right)
            return f"({l} - {r} * (⌊{l} / {r}⌋ : ℝ))"
        return super().expr(e)

    # straight-line block -> list of lets;  `if c: name = e` -> conditional re-binding
    def lets(self, stmts):
        out = []
        for s in stmts:
            if isinstance(s, ast.Expr) and isinstance(s.value, ast.Constant) and isinstance(s.value.value, str):
                continue
            if isinstance(s, ast.Assign) and len(s.targets) == 1 and isinstance(s.targets[0], ast.Name):
                out.append((s.targets[0].id, self.expr(s.value)))
                continue
            if isinstance(s, ast.If) and not s.orelse and len(s.body) == 1 and isinstance(s.body[0], ast.Assign) \
                    and len(s.body[0].targets) == 1 and isinstance(s.body[0].targets[0], ast.Name):
                t = s.body[0].targets[0].id
                out.append((t, f"if {self.expr(s.test)} then {self.expr(s.body[0].value)} else {t}"))
                continue
            raise Unsupported("statement " + ast.unparse(s)[:80])
        return out


def find(tree, qual):
    body = tree.body
    parts = qual.split(".")
    for p in parts[:-1]:
        cls = next((n for n in body if isinstance(n, ast.ClassDef) and n.name == p), None)
        if cls is None:
            raise Unsupported(f"class {p} not found")
        body = cls.body
    fns = [n for n in body if isinstance(n, ast.FunctionDef) and n.name == parts[-1]]
    if len(fns) != 1:
        raise Unsupported(f"{qual}: expected one definition, found {len(fns)}")
    return fns[0]


def let_chain(lets, value):
    return "\n".join([f"  let {n} := {v}" for n, v in lets] + ["  " + value])


def header(rel, qual, what, lean, params):
    return [f"/-- `{rel}: {qual}`{what} -/",
            f"noncomputable def {lean} " + " ".join(f"({a} : {t})" for a, t in params) + " : ℝ :="]


def translate():
    out = ["/- GENERATED by tools/py2lean_spec.py from /repo/src/ocean_science_utilities — do not edit. -/",
           "import Mathlib.Analysis.SpecialFunctions.Trigonometric.Deriv",
           "import Mathlib.Analysis.SpecialFunctions.Sqrt",
           "import Mathlib.Analysis.SpecialFunctions.Log.Basic",
           "import Mathlib.Analysis.SpecialFunctions.Trigonometric.Basic",
           "import Mathlib.Analysis.SpecialFunctions.Complex.Arg",
           "import Mathlib.Algebra.Order.Floor.Ring",
           "", "namespace Osu.GenSpec", ""]
    cache = {}

    def tree(rel):
        if rel not in cache:
            cache[rel] = ast.parse((REPO / rel).read_text())
        return cache[rel]

    for rel, qual, lean, params, attrs in RET:
        fn = find(tree(rel), qual)
        tr = Tr2(attrs, {})
        stmts = [s for s in fn.body]
        if not stmts or not isinstance(stmts[-1], ast.Return) or stmts[-1].value is None:
            raise Unsupported(f"{qual}: the body does not end in `return expr`")
        lets = tr.lets(stmts[:-1])
        out += header(rel, qual, "", lean, params)
        out.append(let_chain(lets, tr.expr(stmts[-1].value)))
        out.append("")

    for rel, qual, lean, params, wanted, attrs, top in SLICE:
        fn = find(tree(rel), qual)
        tr = Tr2(attrs, {})
        pool = fn.body if top else [n for n in ast.walk(fn)]
        lets = []
        for w in wanted:
            pick = None
            if "#" in w:
                w, pick = w.split("#")[0], int(w.split("#")[1])
            if w.endswith("+="):
                hits = [st for st in pool if isinstance(st, ast.AugAssign) and isinstance(st.op, ast.Add)
                        and norm(ast.unparse(st.target)) == w[:-2]]
            else:
                hits = [st for st in pool if isinstance(st, ast.Assign) and len(st.targets) == 1
                        and norm(ast.unparse(st.targets[0])) == w]
            hits.sort(key=lambda st: (st.lineno, st.col_offset))
            if pick is not None:
                if len(hits) <= pick:
                    raise Unsupported(f"{qual}: no assignment #{pick} to {w}")
                hits = [hits[pick]]
            if len(hits) != 1:
                raise Unsupported(f"{qual}: expected exactly one assignment to {w}, found {len(hits)}")
            lets.append((w, tr.expr(hits[0].value)))
        out += header(rel, qual, f", the assignment(s) to {', '.join(wanted)}", lean, params)
        out.append(let_chain(lets[:-1], lets[-1][1]))
        out.append("")

    for rel, qual, lean, params, pre, attrs in LOOP:
        fn = find(tree(rel), qual)
        tr = Tr2(attrs, {})
        lets = []
        for w in pre:
            hits = [st for st in fn.body if isinstance(st, ast.Assign) and len(st.targets) == 1
                    and isinstance(st.targets[0], ast.Name) and st.targets[0].id == w]
            if len(hits) != 1:
                raise Unsupported(f"{qual}: expected exactly one top-level assignment to {w}, found {len(hits)}")
            lets.append((w, tr.expr(hits[0].value)))
        loops = [s for s in fn.body if isinstance(s, ast.For)]
        if len(loops) != 1:
            raise Unsupported(f"{qual}: expected one loop nest, found {len(loops)}")
        loop = loops[0]
        while True:
            inner = [s for s in loop.body if isinstance(s, ast.For)]
            if not inner:
                break
            if len(inner) != 1 or loop.body[-1] is not inner[0]:
                raise Unsupported(f"{qual}: the inner loop is not the last statement of the enclosing loop body")
            # a running sum (`name += expr`) carried across iterations is a parameter of the bin function; its
            # increment is translated as a SLICE of its own
            lets += tr.lets([s for s in loop.body[:-1] if not (isinstance(s, ast.AugAssign) and
                                                               isinstance(s.target, ast.Name) and s.target.id in attrs)])
            loop = inner[0]
        body = loop.body
        if len(body) == 1 and isinstance(body[0], ast.Assign) and isinstance(body[0].targets[0], ast.Subscript):
            lets += []
            t1 = norm(ast.unparse(body[0].targets[0]))
            out += header(rel, qual, f", the value written to {t1} for one bin", lean, params)
            out.append(let_chain(lets, tr.expr(body[0].value)))
            out.append("")
            continue
        if len(body) < 1 or not isinstance(body[-1], ast.If) or len(body[-1].orelse) != 1:
            raise Unsupported(f"{qual}: the innermost body is neither one assignment nor lets followed by an if/else")
        lets += tr.lets(body[:-1])
        iff = body[-1]

        def result(stmt):
            if not (isinstance(stmt, ast.Assign) and len(stmt.targets) == 1 and isinstance(stmt.targets[0], ast.Subscript)):
                raise Unsupported(f"{qual}: branch does not end in an assignment to the output array")
            return norm(ast.unparse(stmt.targets[0])), tr.expr(stmt.value)
        t1, v1 = result(iff.body[-1])
        t2, v2 = result(iff.orelse[-1])
        if t1 != t2 or len(iff.orelse) != 1:
            raise Unsupported(f"{qual}: the two branches do not assign the same output element")
        inner_lets = tr.lets(iff.body[:-1])
        then = "\n".join([f"    let {n} := {v}" for n, v in inner_lets] + ["    " + v1])
        out += header(rel, qual, f", the value written to {t1} for one bin", lean, params)
        out.append("\n".join([f"  let {n} := {v}" for n, v in lets] +
                             [f"  if {tr.expr(iff.test)} then", then, "  else", "    " + v2]))
        out.append("")
    out.append("end Osu.GenSpec")
    return "\n".join(out) + "\n"


if __name__ == "__main__":
    dst = Path(sys.argv[1]) if len(sys.argv) > 1 else Path(__file__).resolve().parents[1] / "lean/OsuProofs/Gen/Spec.lean"
    text = translate()
    dst.parent.mkdir(parents=True, exist_ok=True)
    if not dst.exists() or dst.read_text() != text:
        dst.write_text(text)
    print(f"wrote {dst}")
