#!/usr/bin/env python3
"""Regenerates MANIFEST.json from the table below (keeps it schema-valid at all times)."""
import json
from pathlib import Path

ROOT = Path(__file__).resolve().parents[1]
props = [json.loads(l) for l in (ROOT / "properties.jsonl").read_text().splitlines() if l.strip()]

PROOF_NOTE = ("Trusted: Lean 4.33 kernel; axioms propext/Classical.choice/Quot.sound only (audited by #print axioms on "
              "every run, forbidden-construct grep on the sources); the hand-written model is tied to /repo's working "
              "tree by the correspondence run of this check (differential testing, bounded by generator quality); "
              "see DESIGN.md section 4 and the per-property 'not shown' line.")

CLAIMED = {
    "C18": dict(
        text=("Lean 4 theorems over the executable model of FileCache (OsuModel/FileCache.lean): the invariant "
              "'index = cache files on disk, every cache file complete and of its key's resource, distinct stamps' holds "
              "in every state reachable by any list of operations (get with any schedule and fault outcomes, remove, "
              "purge, reopen, touch, foreign file, crash at any elementary step); returned paths valid; hits not "
              "downloaded; size bound and enlargement rule; LRU prefix + minimality of eviction; requested files never "
              "evicted; hits refreshed; foreign files untouched; the completion order of the downloads (all that differs between "
              "sequential, parallel and any thread schedule) enters the returned paths and the raised error only through "
              "the set of downloads that ran, and two admissible completion orders leave observationally equal caches "
              "(index, limit, clock, content and size of every file; only the stamps of the files just downloaded differ) "
              "and evict the same files. The model is tied to the code by comparing, after every "
              "operation of exhaustive short and long random histories, the full observable state of the real FileCache "
              "with the model's."),
        design="6/C18", technique="Lean 4 invariant proof by induction over operations + model/implementation correspondence",
        note=PROOF_NOTE + " Not shown: real file-system timestamp granularity (logical clock installed by the harness), md5 collisions, HTTPS resource. The schedule actually taken by the thread pool is an input of the model run (observed from the mock resource); state_order_independent shows that it does not matter."),
    "C19": dict(
        text=("Lean 4 theorems: at every crash point (any prefix of the elementary-action trace of any request, any fault "
              "outcome, any schedule) every file under a cache-pattern name is complete, post-processed and of the right "
              "resource; reopening after any crash re-establishes the invariant; a failed key leaves no file and no entry "
              "and is a miss next time; hits and completed downloads of a failing request stay intact; tolerant mode "
              "omits exactly not-found keys; a validation failure is re-fetched or dropped, never served. Correspondence: "
              "every fault kind x position x request shape x follow-up, a real process kill (fork + os._exit) after every "
              "temporary-file write, and random faulty histories, compared with the model after every operation."),
        design="6/C19", technique="Lean 4 proof over all crash points/fault outcomes + fault/crash enumeration correspondence",
        note=PROOF_NOTE + " Crash emulation: the request runs in a forked child that calls os._exit inside the mock resource; kills between two Python statements outside the download phase are covered by the theorem only."),
    "C20": dict(
        text=("Lean 4 theorems over the executable model of tools/time_integration.py: for every order 1..8 and every number "
              "of implicit points the coefficient-array stencil algorithm, evaluated in exact rationals, integrates every "
              "polynomial below the order exactly over its step and sums to one (finite table by kernel evaluation + "
              "linearity lemma); integrate starts at the start value, is linear in (signal, start) for every time axis, "
              "uses the high-order stencil only inside the record and only where each of the last `order` adjacent steps "
              "passed the 1% test (all n), and takes a trapezoid step wherever a jitter test fires or the stencil would "
              "pass the end. Correspondence: numba implementation vs exact rational evaluation of the model on the same "
              "doubles (stencils exhaustively, integrate on seeded grids/signals), plus oracles on the code."),
        design="6/C20", technique="Lean 4 proof (kernel-evaluated rational table + induction over the loop) + exact-rational correspondence",
        note=PROOF_NOTE + " Not shown: float rounding (tolerance 1e-10 of the natural scale), orders above 8."),
    "C17": dict(
        text=("Lean 4 theorems over an integer model of tools/time.py (instants = microseconds since the epoch): the "
              "Gregorian calendar conversion round-trips in both directions for ALL years (two kernel-evaluated tables over "
              "one 400-year era, 146097 days each, plus era periodicity), hence ISO fields -> instant -> fields and "
              "instant -> fields -> instant are identities (microseconds kept); an aware time at any offset denotes "
              "local - offset; naive = UTC; datetime64 round trip = floor to the second; None -> None; sequences map; "
              "packed hhmmss/hhmm/hh and yyyymmdd/yymmdd decode correctly for every valid integer. Two ties to the code: "
              "(1) the packed-integer functions are machine-translated from the Python source on every run "
              "(tools/py2lean.py) and the theorems are re-checked on the translation; (2) correspondence of every "
              "representation of seeded instants 1970..2100 x offsets with the model."),
        design="6/C17", technique="Lean 4 proof (kernel tables + omega) on a model partly regenerated from source + correspondence",
        note=PROOF_NOTE + " Not shown: Python's string<->field parsing/formatting (exercised only), float rounding of non-dyadic epoch seconds."),
    "C01": dict(
        text=("Lean 4 theorems over the generic (ordered-field) model of frequency_moment: closed form as a sum over "
              "non-negative atoms of the selected nodes; linear in the variance density (scale, sum under equal NaN masks; "
              "the one-sided-NaN counterexample is recorded); periods scale invariant, Hm0 scales with sqrt(c) (ℝ); "
              "Cauchy-Schwarz m1^2 <= m0 m2 hence Tm02 <= Tm01; 1/f_last <= Tm02 <= Tm01 <= 1/f_first over the band; all for "
              "every strictly increasing grid, band, NaN pattern, power. Correspondence: frequency_moment of 1D/2D spectra in "
              "four dims layouts x 8 bands x powers 0..4 against the exact rational value of the model, plus the "
              "defining expressions and laws checked on the implementation."),
        design="6/C01", technique="Lean 4 proof over ordered fields (list induction, Cauchy-Schwarz) + exact-rational correspondence",
        note=PROOF_NOTE + " Not shown: float rounding; that xarray's integrate is the trapezoid (assumed, exercised). Second tie (translator): tools/py2lean_spec.py re-translates WaveSpectrum.m0/m1/m2/hm0/tm01/tm02 and the three bulk properties from the current source on every run (which power, band limits handed on unchanged, closed forms) and OsuProps/C01Gen.lean proves them equal to the model's moment 0/1/2, hm0, tm01, tm02."),
    "C02": dict(
        text=("Lean 4 theorems: wrapped_difference returns the representative modulo the period in [d-P, d); for every grid "
              "covering the circle (all cyclic gaps in (0,180), any start, uniform or not) the bin widths are the cyclic "
              "gaps, positive, summing to 360 (and a gap >= 180 gives a non-positive width); for non-negative densities "
              "with e(f) > 0 every directional moment is defined with magnitude <= 1 and a^2+b^2 <= 1 (Cauchy-Schwarz with "
              "c^2+s^2=1); e(f)=0 gives undefined moments; the numba double sum is the same quadrature. Correspondence: "
              "direction_step, frequency_step, e, a1..b2 per row against exact rationals (numpy trig tables as inputs), "
              "as_frequency_spectrum metadata and 2D-vs-1D bulk parameters on the implementation."),
        design="6/C02", technique="Lean 4 proof (floor/modular arithmetic over ordered fields, Cauchy-Schwarz) + exact-rational correspondence",
        note=PROOF_NOTE + " Not shown: accuracy of numpy cos/sin; 2D->1D preservation is definitional in the model (both read e(f) through the same function) and tied by the implementation oracle. Second tie (translator): tools/py2lean_spec.py re-translates tools/math.py: wrapped_difference (element arithmetic and default discontinuity) and FrequencyDirectionSpectrum.direction_step from the current source on every run; OsuProps/C02Gen.lean proves them equal to the model's wrapDiff and the element map of dirStep."),
    "C03": dict(
        text=("Lean 4 theorems at ℝ: direction = arg(A+iB) in degrees lies in (-180,180]; spread in [0, sqrt2*180/pi] < 81.03 "
              "for moments in the unit disc; on every uniform grid (any N, theta0) rotating the spectrum by any k bins keeps "
              "e(f) and rotates the m-th harmonic moments by m*k*dtheta (re-indexing over Fin N + angle addition), so the "
              "direction shifts by k*dtheta modulo a full turn (Real.Angle), magnitudes/spread are unchanged, band integrals "
              "rotate with them; mirroring (theta0 = 0) negates sine moments and the direction. Correspondence: point "
              "functions (Float model), band means against exact rationals, rotation/mirror relations on the implementation."),
        design="6/C03", technique="Lean 4 proof at ℝ (Finset re-indexing, Complex.arg / Real.Angle) + correspondence",
        note=PROOF_NOTE + " Not shown: libm atan2/sqrt accuracy (1e-9 comparison); grids with 2*theta0/dtheta integer but theta0 != 0 for the mirror. Second tie (translator): WaveSpectrum._mean_direction, _spread and radian_direction are re-translated from the current source on every run (tools/py2lean_spec.py); OsuProps/C03Gen.lean proves them equal to the model's meanDir and spread."),
    "C04": dict(
        text=("Lean 4 theorems: the scan returns an in-band index with a non-missing energy that is the maximum of the "
              "in-band non-missing energies, and no earlier in-band index attains it (first maximum, ties to the lowest "
              "index); it fails exactly when no in-band bin has a value; the index never leaves the band; a peak wavenumber "
              "returned through the dispersion solver's convergence test satisfies |omega(k) - w|/w < tol at the spectrum's "
              "own depth (deep for a missing depth); batch = map. Correspondence: "
              "peak_index on multi-peaked, plateaued, NaN, zero-energy spectra x bands against the model; peak "
              "frequency/period/direction/spread = values at that index and the dispersion residual of peak_wavenumber "
              "on the implementation."),
        design="6/C04", technique="Lean 4 proof (invariant of the argmax scan) + correspondence",
        note=PROOF_NOTE + " Peak wavenumber tolerance is C07's sampled convergence clause. Second tie (translator): peak_period, peak_angular_frequency, radian_frequency, wavelength, wave_speed, peak_wave_speed are re-translated from the current source on every run (tools/py2lean_spec.py); OsuProps/C04Gen.lean proves the closed forms 1/f_p, 2 pi f_p, 2 pi/k, omega/k and their mutual consistency."),
    "C13": dict(
        text=("Lean 4 theorems over the ordered-field model of enclosing_points_1d / interpolation_weights_1d / "
              "NdInterpolator._data_interpolator (one coordinate, joint NaN mask over the passive dimensions as in the code): "
              "searchsorted characterised on strictly increasing grids; a target on a node returns that node's data even if the "
              "next node is missing; the right end point; strictly between two nodes the convex combination, hence between "
              "the neighbouring values; exact for linear data; outside the grid every element missing (no extrapolation); a "
              "missing neighbour dropped iff the surviving weight exceeds one half; descending grids = ascending problem in "
              "the flipped frame; nearest = round half to even. Correspondence: indices, weights and full results of "
              "interpolate_dataset_along_axis / _grid for rank 1..4, any axis position, NaN patterns, datetime64 axes, "
              "against exact rationals; spectrum-level time/frequency interpolation (energy-weighted moments, fill value, "
              "linear and nearest) on the implementation."),
        design="6/C13", technique="Lean 4 proof over ordered fields (sorted-list search, case analysis of the corner loop) + exact-rational correspondence",
        note=PROOF_NOTE + " Interpretation: the NaN mask is joint over the passive dimensions (one missing element drops the whole slab of that node), as coded; 'identical at nodes' is claimed for slabs without missing values."),
    "C14": dict(
        text=("Lean 4 theorems: periodic reduction and wrapped differences are invariant under shifts by any whole number of "
              "periods, so targets that differ by k*P get identical indices, fraction and result; on every grid covering the "
              "circle (gaps < P/2, within one turn) every target is bracketed by two cyclically adjacent nodes incl. the "
              "(last, first) pair with fraction in [0,1), so with clean neighbours no result is missing; the unit-vector "
              "average lies between its neighbours on the shorter arc (cross-product identities, bisector projection "
              "1 + u0.u1 >= 0); wrapped results lie in [discont-P, discont) ([0,360) for directions) and are congruent to "
              "the unwrapped value; shortest-arc linear interpolation has |delta| <= P/2. Correspondence: periodic indices, "
              "weights, dataset interpolation along direction/longitude, interpolate_periodic against exact rationals; "
              "angular data, data frames, Track.interpolate and interpolate_at_points across the antimeridian on the code."),
        design="6/C14", technique="Lean 4 proof (floor/modular arithmetic over ordered fields) + exact-rational correspondence",
        note=PROOF_NOTE + " Not shown: libm arctan2 of the complex64 average (1e-3 degree comparison with a float64 reference). Second tie (translator): wrapped_difference is re-translated from the current source on every run (tools/py2lean_spec.py) and OsuProps/C02Gen.lean proves it equal to the model's wrapDiff."),
    "C07": dict(
        text=("Lean 4 theorems at ℝ about the exact dispersion relation and the solver's structure: tanh has derivative "
              "1/cosh^2, is strictly increasing, 0 < tanh x <= x; omega = sqrt(g k tanh(k d)) is strictly increasing in k, "
              "non-decreasing in d, below its deep-water value; hence the exact wavenumber is unique, increasing in w, "
              "non-increasing in d, bounded below by both asymptotes (equality in infinite depth); an estimate with relative "
              "residual <= eps lies between the exact roots of (1-eps)w and (1+eps)w; the code's group/phase ratio lies in "
              "[1/2,1] and never exceeds the exact n = 1/2 + kd/sinh 2kd in (1/2,1]; d omega/dk = n omega/k (HasDerivAt); "
              "when the iteration leaves through its convergence test every element passes it. Correspondence: the Float "
              "model runs the same iteration (1e-9 agreement, shared iteration count of a vector); the 1e-3 residual, "
              "positivity, monotonicity, asymptotes, dw/dk and the spectrum-level arrays are checked on the implementation "
              "over a (w, d) log grid."),
        design="6/C07", technique="Lean 4 proof at ℝ (calculus in Mathlib) + Float-model correspondence + residual scan",
        note=PROOF_NOTE + " Second tie: intrinsic_dispersion_relation and ratio_group_velocity_to_phase_velocity are machine-translated from the current source on every run and proved equal to the model's omega / ratio (OsuProps/C07Gen.lean). Sampled, not proved: that 10 Newton steps reach 1e-3 for every (w, d) of the box (max residual seen is recorded in the evidence). The spectrum-level closed forms wavelength = 2 pi/k and wave_speed = omega/k are re-translated as well (tools/py2lean_spec.py, OsuProps/C04Gen.lean)."),
    "C15": dict(
        text=("Lean 4 theorems: (a) C-order index arithmetic of flatten for every number and size of leading dimensions: "
              "unravel(ravel idx) = idx for every valid multi-index, ravel(unravel k) = k with a valid multi-index for every "
              "k below the count, flatten keeps the count and pairs spectrum ravel(idx) with the data at idx; selecting "
              "element i of a concatenation is the i-th input; (b) an object-store model of the discipline the code "
              "follows (every operation builds a fresh dataset, only fillna / multiply(inplace=True) rebind their own): "
              "well-formedness is preserved by every operation, every pre-existing object is unchanged by every operation "
              "that is not in-place on it (lifted to all histories by induction), a derived object / deep copy shares no "
              "array with earlier objects. The tie to the code is observational: byte snapshots of every variable of every "
              "live object before and after each operation of random sequences (<= 6), write-through test of deep copies, "
              "bitwise concat/select, flatten pairing and netCDF round trips."),
        design="6/C15", technique="Lean 4 proof (index arithmetic, store invariant by induction over operations) + snapshot/round-trip oracles on the implementation",
        note=PROOF_NOTE + " The store model abstracts array contents away; whether an operation of the code mutates an operand is decided only by the snapshot oracle (no executable correspondence for this part)."),
    "C16": dict(
        text=("Lean 4 theorems at ℝ over the model of create_fourier_amplitudes / nfft*irfft(a, n): series and time axis both "
              "have nfft samples (nfft even, nfft <= L < nfft+2), time axis t/fs; |amplitude|^2 = area*E/2*|factor|^2 "
              "independent of the phase; the six transfer factors carry 1, w^2, cos^2, sin^2, w^2cos^2, w^2sin^2; scaling "
              "the density by c >= 0 scales amplitudes and series by sqrt c (linearity of the inverse transform); equal "
              "phases give equal series; discrete Parseval for the real inverse DFT of the model (orthogonality of the "
              "harmonics from the geometric sum of n-th roots of unity): the sample variance of the n samples is "
              "2 sum_{k>=1} |a_k|^2 = sum_{k>=1} area_k E_k |factor_k|^2 whatever the phases, the zero-frequency bin only sets "
              "the mean. Correspondence: Float model of amplitudes + real inverse DFT against surface_timeseries for all "
              "six components (phases drawn with the same default_rng call); variance, lengths, seeds and sqrt-scaling "
              "oracles on the implementation."),
        design="6/C16", technique="Lean 4 proof at ℝ + Float-model correspondence + variance oracle",
        note=PROOF_NOTE + " The Parseval theorem is for one amplitude per FFT bin (1D spectra, and 2D spectra after the code's sum over direction); 'different seeds differ' is a statement about PCG64 and is only sampled."),
    "C12": dict(
        text=("Lean 4 theorems: argmax returns a value that bounds every element and is attained, so the peak-method level of "
              "any spectrum with E f^p <= c everywhere and = c somewhere (a c f^-p range) is exactly c; mean method: argmin "
              "points at a smallest relative variance, relative variances are >= 0 and vanish on constant windows, so if any "
              "scanned window lies in a range where E f^p is constant the selected window is itself flat and (no start-index "
              "clip, non-zero mean) the returned level is exactly its constant value; scaling the spectrum by "
              "c > 0 selects the same frequency (same a1, b1, direction) and scales the level, hence u*, by c; "
              "u* = 8 pi^3 E_eq / (4 g I beta) (ℝ, linear in E_eq); directions are returned in [0, 360) congruent to the "
              "unwrapped angle; the meteorological convention is (270 - theta) mod 360 in [0, 360); U10 = u*/kappa ln(10/z0) "
              "with z0 = alpha u*^2/g. Correspondence: Float model of both methods (peak; minimum-variance 20-bin window "
              "transcribed with its index clipping), u*, direction, convention and U10 against estimate_u10_from_spectrum for "
              "batches in four layouts and non-default parameters; analytic-tail, scaling and 2D = 1D oracles on the code."),
        design="6/C12", technique="Lean 4 proof (argmax invariant, scaling invariance, modular range) + Float-model correspondence",
        note=PROOF_NOTE + " For the mean method the theorem gives the level of the selected flat window; that this window lies in *the* c f^-4 range (and not in another flat range) is the premise of the property and is exercised by the analytic-tail oracle. Second tie: tools/py2lean_arith.py re-translates four statement slices of windestimate.py from the current source on every run - equilibrium level -> u*, (180/pi atan2(b1,a1)) % 360, (270 - direction) % 360 and u*/kappa log(10/z0) - and OsuProps/C12Gen.lean proves them equal to the model's ustar, tailDirection, toMeteorological and u10Of."),
    "C05": dict(
        text=("Lean 4 theorems at ℝ over the model of mem.py / mem2.py: for every multiplier vector (hence for whatever Newton "
              "- converged, out of iterations, line search failed, any linear solver -, scipy or the first guess end with) the "
              "MEM2 distribution exp(-(ip - min ip))/Z is strictly positive and sums to one against the direction increments, "
              "and the min-shift changes nothing; MEM after its discrete normalisation is non-negative for every quadruple "
              "(the sign of the numerator cancels) and sums to one with 2pi/N when numerator and integral are non-zero; the "
              "numerator is (1-|c1|^2)(1-|Phi2|^2) (zero exactly on the recorded boundary finding); multiplying by e(f) and "
              "the degree Jacobian and integrating over direction returns e(f). Correspondence: the Float instance of the same "
              "definitions against numba_mem/_mem, initial_value, mem2_directional_distribution, moment_constraints, "
              "mem2_jacobian, solve_cholesky and the whole mem2_newton_solver; validity, no-raise, energy round trip, "
              "batch = single (bitwise) and metadata oracles on estimate_directional_distribution / "
              "as_frequency_direction_spectrum for all four variants, N in 8..180 and four batch layouts."),
        design="6/C05", technique="Lean 4 proof at ℝ (for all multipliers / all quadruples) + Float-model correspondence + implementation oracles",
        note=PROOF_NOTE + " IEEE effects (0/0 on the MEM boundary, overflow) are outside the real-number theorems and are covered by the oracles; the lstsq fallback and scipy's root finder are parameters, not models."),
    "C06": dict(
        text=("Lean 4 theorems at ℝ: Newton loop invariant (the carried residual is the constraint function of the carried "
              "iterate; every accepted line-search step strictly reduces the residual norm), so a result flagged converged has "
              "four-moment residual < atol and each of a1,b1,a2,b2 is reproduced within atol; any two multiplier vectors that "
              "meet the stopping rule (Newton, scipy) give moments within 2 atol of each other; every entry of mem2_jacobian "
              "equals the covariance sum(w T_m T_n) - sum(w T_m) sum(w T_n) under w = D*delta (so the mirrored lower triangle "
              "is exact and the matrix symmetric), is positive semidefinite (x^T J x is the variance of x.T under w) and is the derivative (HasDerivAt) of moment_constraints m with respect to "
              "multiplier n, the min-shift notwithstanding; the first guess of rotated moments is the rotated first guess, the "
              "exponent lambda.T(theta) of rotated multipliers is the exponent at theta - phi, so for any multipliers the MEM2 "
              "distribution rotates by k bins with them on every uniform grid, and the approximate variant as a whole rotates "
              "with its input (all N, theta0, k); MEM: Phi1 -> Phi1 e^{i phi}, Phi2 -> Phi2 e^{2 i phi}, numerator unchanged, so the "
              "value at theta of rotated moments is the value at theta - phi, and MEM with its discrete normalisation rotates "
              "by k bins on every uniform grid (bridge lemmas tie the list model to these functions); the constraint function is "
              "equivariant (F(R lambda; R M) = R F(lambda; M)), the line search makes the same decisions on rotated data, and "
              "the whole damped Newton iteration (any tolerance / cap / depth, converged or not) returns the rotated "
              "distribution for rotated moments for every exact linear solver with nonsingular Jacobians (J(R lambda) = R J(lambda) "
              "R^T entry by entry, R orthogonal, hence an exact Newton step is equivariant); the same for the mirror image "
              "(b1, b2 -> -b1, -b2 gives D(-theta)) for MEM, the approximate variant and Newton with an exact solver. "
              "solve_cholesky (Cholesky-Banachiewicz, forward and back substitution, as coded) is proved exact on every symmetric "
              "4x4 system on which it returns a vector, hence the step the iteration takes is the exact Newton step J x = g whenever "
              "the factorisation succeeds; it is proved to succeed, and then to solve, on every symmetric positive definite 4x4 matrix "
              "(completing the squares with the partial factor: each pivot is the value of the quadratic form on an explicit vector); "
              "the constraint Jacobian is proved positive definite for every multiplier vector on every uniform grid with N >= 5 "
              "(x.T(theta) is not constant on five or more equally spaced directions unless x = 0: discrete Parseval; a variance under "
              "positive weights vanishes only for constants), so the model's own solver cholSolve4 never fails there and satisfies the "
              "exact-solver hypothesis: newton_rotates_cholesky / newton_mirrors_cholesky state the rotation and mirror equivariance of "
              "the whole modelled iteration (damped Newton, line search, Cholesky solve) with no hypothesis on the solver. "
              "Correspondence as C05; fidelity of Newton / scipy / MEM on "
              "von-Mises mixtures with spread >= 1.5 bins (N in 24,36,72,144), Newton-vs-scipy agreement, rotation by every k "
              "and mirror equivariance of all four variants, finite-difference Jacobian, on the implementation."),
        design="6/C06", technique="Lean 4 proof at ℝ (loop invariant, closed-form Jacobian, HasDerivAt) + Float-model correspondence + implementation oracles",
        note=PROOF_NOTE + " Second tie: tools/py2lean_arith.py re-translates mem2.py: initial_value from the current source on every run and OsuProps/C06Gen.lean proves it equal to the model's first guess. That the solvers do converge on resolved inputs, MEM's discretisation error (exact aliasing identity in the harness) and newton_rotates_exact assumes an exact linear solve and nonsingular Jacobians (real arithmetic): the float Cholesky / lstsq of the code, and scipy's root finder, are the oracles' business; scipy runs and the mirror image are decided by the oracles only."),
    "C08": dict(
        text=("Lean 4 theorems at ℝ over the model of st4_wind_input / st4_wave_breaking / st6_wave_breaking / operations "
              "(one spatial point, wavenumbers and group velocities as inputs): the ST4 input of every bin is >= 0 for a "
              "non-negative spectrum whatever wind, roughness, depth (growth = const * exp(l) * l^4 * W^2 * omega), = 0 where "
              "E = 0, = 0 where cos(theta - theta_w) <= 0, and linear in E at fixed roughness, for the kernel and for the whole "
              "field; ST4 saturation and cumulative terms and ST6 inherent + cumulative terms are <= 0 and = 0 where E = 0 "
              "(strength integral >= 0, exceedances >= 0); the bulk rate is the double sum with the spectrum's own bin widths and "
              "has the sign of the field. Whole-field statements: st4Dissipation and st6Dissipation of the model are <= 0 in every "
              "entry for a non-negative spectrum; entry (i, j) of the wind input, of the ST4 and of the ST6 dissipation is zero "
              "wherever entry (i, j) of the spectrum is (positional support), so an empty spectrum gives identically zero fields. "
              "Correspondence: Float model against gen.rate / bulk_rate at fixed roughness and "
              "dis.rate / bulk_rate / mean direction (ST4, ST6, 5+5+3 parameter sets, u10 and u* input, deep / finite depth); "
              "sign, support, proportionality, bulk = integral, batch = single, independence of the term object's history "
              "(another grid of the same shape evaluated first), imbalance identities and Romero sign as oracles on the code."),
        design="6/C08, 11.3", technique="Lean 4 proof at ℝ (sign / support / linearity of every kernel and field) + Float-model correspondence + implementation oracles",
        note=PROOF_NOTE + " Romero is checked by oracle only (not modelled). The imbalance identities are definitional in the model and tied by the oracle. Second tie (translator): tools/py2lean_spec.py re-translates, from the current source on every run, the body of the loop nest of _st4_wind_generation_point (value of one bin: relative speed, Janssen critical height with its clamp, growth rate, explicit zero against the wind), the U10 -> friction-velocity conversion, the wrapped mutual-angle cosine, and the ST6 pieces (saturation, clipped relative exceedance, running-sum increment and start, inherent and cumulative bin values); OsuProps/C08Gen.lean proves them equal to the model's st4Rate, frictionVelocity, cosMutual, st6Entry, the element function of st6Exceedance and runSums - the definitions the sign/support/scaling theorems are stated about."),
    "C09": dict(
        text=("Lean 4 theorems at ℝ for every N and every rotation k (mirror for grids starting at 0): the mutual-angle wrap "
              "does not change the cosine and is 2 pi periodic; the ST4 input row of a jointly rotated spectrum and wind is "
              "the rotated row (and the mirrored row for the mirror image), with bridge lemmas from the list model; the band-integrated saturation and the "
              "cumulative-breaking strength are circular convolutions whose kernels depend on the index difference only "
              "(|c e^{ia} - c' e^{ib}|^2 = c^2 + c'^2 - 2cc' cos(a-b)), hence commute with the rotation, and with the mirror image "
              "because the kernels are even (|wrap(-x)| = |wrap(x)|); direction integrals "
              "(bulk rates, ST6 saturation) are invariant; the stress vector rotates as a vector, so its magnitude is "
              "invariant and its direction shifts by k*360/N mod 360 (negates under mirroring); a solver applied to a "
              "pointwise equal balance function returns the same value. Oracles on the code: fields shift by k bins "
              "(1e-9), angles shift mod 360, bulk rates / stress magnitude / roughness / estimated U10 unchanged, for "
              "N in 16, 24, 36, all k (thorough) and the mirror image; stress correspondence with the Float model. "
              "Whole-field theorems for the list model on a uniform grid (every N, k, frequency grid, kinematics table and parameter "
              "set; mirror image for grids starting at 0): the model's st4Input, st6Dissipation and st4Dissipation (band saturation, "
              "isotropic maximum, cumulative term with its cut-off over longer waves) of the rotated / mirrored input are the rotated / "
              "mirrored fields; resolved stress, WAM tail stress (same failure) and viscous stress rotate / reflect as vectors, so the "
              "total stress magnitude, the stress-balance function of log z0, the roughness returned by the Newton-Raphson model "
              "(or its failure), every bulk rate, the balance function of the wind inversion (roughness solved anew at every U10, "
              "rate of change in the active region) and the estimated U10 are unchanged, and the dissipation-weighted wavenumber "
              "vector rotates / reflects. Direction-iterated inversions are exercised on the code only (veering seas, rotated and mirrored)."),
        design="6/C09, 11.3", technique="Lean 4 proof at ℝ (re-indexing over Fin N, periodicity, convolution commutes with rotation, vector rotation) + rotation/mirror oracles on the implementation",
        note=PROOF_NOTE + " The theorems are exact-arithmetic statements about the list model's whole fields and about the per-row kernels; that whole float solver runs are bit-identical under rotation is not claimed (oracle tolerance 1e-5 / 0.03 m/s; 0.1 m/s and 1.5 degrees with direction iteration, which is not in the Lean model). Second tie (translator): the ST4 wind-input loop body, mutual-angle cosine and the ST6 bin formulas are re-translated from the current source on every run and proved equal to the model definitions the rotation theorems are about (tools/py2lean_spec.py, OsuProps/C08Gen.lean)."),
    "C10": dict(
        text=("Lean 4 theorems at ℝ over branch-by-branch models of fixed_point_iteration and numba_newton_raphson: a missing "
              "(NaN) wind speed gives a missing roughness element by element; drag = (kappa/ln(elev/z0))^2; the Charnock map is "
              "alpha u*^2/g + c nu/u* with u* = kappa U/ln(elev/z); invariant of the Newton/secant/bisection hybrid over all "
              "reachable states (recorded bracket values are f at the bracket ends, bracket ordered, iterate inside once "
              "bracketed, end values of opposite sign) and its consequence: every value returned through the convergence "
              "test has a last step below atol / rtol, was reached by a regular (Newton, secant or bisection) step and not by an Aitken "
              "extrapolation, and, if bracketed, lies in a bracket with a sign change, which for a "
              "continuous balance contains an exact root (IVT); a returned wave-dependent roughness is exp of such a value, "
              "hence positive, or missing; without the viscous term exact Charnock solutions in (0, elev/e^2) are ordered like their "
              "wind speeds (z ln^2(elev/z) strictly increasing there) and the drag coefficient increases with the roughness. "
              "Correspondence: both solvers against the jitted / numpy code on seven test-function "
              "families (raised vs returned and value), charnock_roughness_length_from_u10 and drag for all input kinds, the "
              "stress balance and the Janssen roughness; Charnock residual <= 1e-4, monotonicity, NaN and the "
              "single-sign-change residual (1e-4) oracles."),
        design="6/C10, 11.3", technique="Lean 4 proof at ℝ (solver invariants by induction over iterations, IVT) + Float-model correspondence + residual oracles",
        note=PROOF_NOTE + " Second tie: roughness_wu / drag_coefficient_wu are machine-translated on every run and proved equal to the model's first guess (OsuProps/C10Gen.lean). Convergence itself and the 1e-4 Janssen residual are sampled, not proved; monotonicity is proved for exact solutions and sampled for the returned approximations."),
    "C11": dict(
        text=("Lean 4 theorems at ℝ: U10 = 0 when the integrated dissipation is 0; without direction iteration the direction "
              "handed in is returned; with hard bounds (0, inf) and a non-negative guess no iterate is negative, so the "
              "estimate is missing or >= 0; a returned estimate carries the solver certificate for the balance function "
              "(last step < 0.01 m/s; if bracketed, inside a bracket with a sign change of the balance) and was reached by a "
              "regular step (under-relaxed Newton / secant update or bisection, never an Aitken extrapolation: for an unclipped "
              "Newton / secant step of slope d the balance at the previous iterate is exactly -d (u - prev) / 0.9); the rate-of-change "
              "term only counts bins with positive generation. Oracles on the code: balance (bulk input + bulk dissipation - "
              "active rate of change) changes sign within +-0.1 m/s of the returned U10 (ten solver steps), direction = dissipation-weighted "
              "mean direction, finite result whenever a scan shows a root in [2, 40] m/s, zero for zero dissipation, "
              "batch = single, factory-built pair = pair built directly; with direction iteration (veering seas placed on the 0/360 seam): "
              "finite, positive, balance closed within 0.3 m/s at the reported direction; past failures (corpus/) are replayed first; "
              "correspondence of the balance function and of the whole inversion with the Float model."),
        design="6/C11, 11.3", technique="Lean 4 proof at ℝ (solver invariant, non-negativity, certificate) + Float-model correspondence + balance oracles",
        note=PROOF_NOTE + " Existence / uniqueness of the root and convergence are sampled. Strict positivity is an oracle (the theorem gives >= 0). Direction iteration is not in the Lean model (oracles on the code only). The convergence test of the model follows the repaired solver (fix 4274ea7: no convergence on an Aitken step)."),
}

NOT_YET = "check not built yet in this session; see DESIGN.md section 9 (build order)"

checks, na = [], []
for p in props:
    pid = p["id"]
    if pid in CLAIMED:
        c = CLAIMED[pid]
        checks.append({
            "property_id": pid,
            "quick_cmd": f"./check {pid} --tier quick",
            "thorough_cmd": f"./check {pid} --tier thorough",
            "evidence_file": f"evidence/{pid}.json",
            "replay_cmd_template": f"./check {pid} --replay {{path}}",
            "engine": "lean4+correspondence",
            "level_claimed": {"category": "proof", "text": c["text"], "design_ref": c["design"]},
            "level_note": c["note"],
            "technique": c["technique"],
        })
    else:
        na.append({"property_id": pid, "reason": NOT_YET})

manifest = {
    "version": 1,
    "setup_cmd": "cd lean && lake build OsuModel OsuProofs OsuProps osu_driver",
    "hooks": {
        "guard": "OSU_VERIF",
        "enable": "no source hooks are needed: mocks enter through public parameters (FileCache(resources=...)) and the logical clock is installed inside the harness process",
        "baseline_off_cmd": "cd /repo && /venv/bin/python -m pytest -ra -q -p no:cacheprovider --timeout=900 --continue-on-collection-errors",
        "source_commits": [],
        "add_only": True,
    },
    "engines": [{
        "name": "lean4+correspondence", "path": "lean/ , harness/",
        "serves_properties": sorted(CLAIMED),
        "kind_free_text": "hand-written Lean 4 model (Mathlib-free, executable) + theorems (OsuProps) + compiled driver; Python harness runs the real code and the driver on the same inputs and diffs",
    }],
    "checks": checks,
    "not_applicable": na,
    "notes": "fix: commits in /repo are listed in known_findings.txt (fixed: lines). See DESIGN.md.",
}
(ROOT / "MANIFEST.json").write_text(json.dumps(manifest, indent=1) + "\n")
print(f"claimed {len(checks)}, not applicable {len(na)}")
