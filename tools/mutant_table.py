#!/usr/bin/env python3
"""Print the markdown table of seeded changes (from seeded/*/meta.json) for DESIGN.md section 11.4."""
import json
from pathlib import Path

root = Path(__file__).resolve().parents[1] / "seeded"
rows = []
for d in sorted(root.iterdir(), key=lambda p: (p.name.split("-")[0], p.name)):
    m = d / "meta.json"
    if not m.exists():
        continue
    j = json.loads(m.read_text())
    note = " ".join(j.get("needs_to_manifest", "").split())
    first = note.split(". ")[0][:150]
    caught = ", ".join(j.get("caught_by", [])) or "—"
    how = []
    for c, v in j.get("checks_run", {}).items():
        if v.get("violation"):
            how.append("no failing input" if v["violation"][0].endswith("no-failing-input-found") else "failing input")
    rows.append(f"| {d.name} | {first} | {caught} | {', '.join(how) or '—'} |")
print("| change | what it is | caught by | reported with |")
print("|---|---|---|---|")
print("\n".join(rows))
