#!/bin/sh
# run every claimed check (quick by default) on the current tree; evidence files are rewritten
cd "$(dirname "$0")/.." || exit 2
TIER="${1:-quick}"
rc=0
for p in $(python3 -c "import json;print(' '.join(c['property_id'] for c in json.load(open('MANIFEST.json'))['checks']))"); do
  ./check "$p" --tier "$TIER" 2>&1 | grep -v "No convergence" | tail -2
  [ $? -ne 0 ] && rc=1
done
exit $rc
