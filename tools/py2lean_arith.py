#!/usr/bin/env python3
"""Translate small real-arithmetic kernels of the library into Lean definitions over ℝ (second tie for
C06, C07, C10): the generated file is rebuilt from /repo's current source on every run of those checks and
`OsuProps/C0xGen.lean` proves each generated function equal to the hand-written model definition.

Supported subset (anything else fails loudly; the check then reports that the tie broke):
  statements  docstring | Name = expr | out[..., i] = expr (collected, in order) | out = np.empty(...) (ignored)
              | return expr | return out
  slices      selected `name = expr` assignments of a larger function, in order (the value is the last one)
  expr        Name | int / float literal (exact rational) | np.pi | + - * / | % positive literal | ** non-negative int literal | unary -
              | np.arctan2(y, x) (= Complex.arg ⟨x, y⟩)
              | np.sqrt/tanh/sinh/exp/log/cos/sin(expr) | np.where(a > b, x, y) | atleast_1d(x) (identity)
              | call of another translated function | one whitelisted attribute (air.vonkarman_constant)
"""
import ast
import os
import sys
from fractions import Fraction
from pathlib import Path

REPO = Path(os.environ.get("OSU_REPO", "/repo")) / "src/ocean_science_utilities"

# (file, function, argument names in Lean order, extra attribute parameters)
TARGETS = [
    ("wavespectra/estimators/mem2.py", "initial_value", ["a1", "b1", "a2", "b2"], {}),
    ("wavetheory/lineardispersion.py", "intrinsic_dispersion_relation", ["k", "dep", "grav"], {}),
    ("wavetheory/lineardispersion.py", "ratio_group_velocity_to_phase_velocity", ["k", "depth"], {}),
    ("wavetheory/lineardispersion.py", "phase_velocity", ["k", "depth", "grav"], {}),
    ("wavetheory/lineardispersion.py", "intrinsic_group_velocity", ["k", "depth", "grav"], {}),
    ("wavephysics/balance/wam_tail_stress.py", "log_dimensionless_critical_height",
     ["x", "charnock_constant", "vonkarman_constant", "wave_age_tuning_parameter"], {}),
    ("wavephysics/balance/wam_tail_stress.py", "_charnock_relation_point",
     ["friction_velocity", "gravitational_acceleration", "charnock_constant", "charnock_maximum_roughness"],
     {'parameters["gravitational_acceleration"]': "gravitational_acceleration",
      'parameters["charnock_constant"]': "charnock_constant",
      'parameters["charnock_maximum_roughness"]': "charnock_maximum_roughness"}),
    ("wavephysics/roughness.py", "drag_coefficient_wu", ["speed"], {}),
    ("wavephysics/roughness.py", "roughness_wu", ["speed", "elevation", "kappa"], {"air.vonkarman_constant": "kappa"}),
]
# statement slices of larger functions: (file, function, Lean name, argument names, assigned names to translate in order;
# the value is the last one; a name may carry "@key" when it is assigned as dataset["key"] / a dict entry)
SLICES = [
    ("wavephysics/windestimate.py", "friction_velocity", "friction_velocity_estimate",
     ["e", "grav", "directional_spreading_constant", "beta"], ["emean", "friction_velocity_estimate"]),
    ("wavephysics/windestimate.py", "friction_velocity", "tail_direction", ["a1", "b1"], ["direction"]),
    ("wavephysics/windestimate.py", "estimate_u10_from_spectrum", "meteorological_direction", ["direction"], ["@direction"]),
    ("wavephysics/windestimate.py", "estimate_u10_from_spectrum", "u10_loglaw", ["friction_velocity", "vonkarman_constant", "z0"], ["{u10}"]),
]
# attribute / subscript spellings inside the slices -> argument names
attrs_of = {
    "meteorological_direction": {'dataset["direction"]': "direction"},
    "u10_loglaw": {"dataset.friction_velocity": "friction_velocity"},
}
FUNCS = {"sqrt": "Real.sqrt", "tanh": "Real.tanh", "sinh": "Real.sinh", "exp": "Real.exp", "log": "Real.log",
         "cos": "Real.cos", "sin": "Real.sin"}


class Unsupported(Exception):
    pass


def lit(v):
    f = Fraction(str(v))
    if f.denominator == 1:
        return f"({f.numerator} : ℝ)" if f >= 0 else f"(({f.numerator}) : ℝ)"
    return f"(({f.numerator} : ℝ) / ({f.denominator} : ℝ))"


class Tr:
    def __init__(self, attrs, known):
        self.attrs, self.known = attrs, known      # known: name -> (python arg names, lean arg names)

    def expr(self, e):
        if isinstance(e, ast.Name):
            return e.id
        if isinstance(e, ast.Constant) and isinstance(e.value, (int, float)) and not isinstance(e.value, bool):
            return lit(e.value)
        if isinstance(e, ast.Attribute) and ast.unparse(e) == "np.pi":
            return "Real.pi"
        if isinstance(e, (ast.Attribute, ast.Subscript)):
            key = ast.unparse(e).replace("'", '"')
            if key in self.attrs:
                return self.attrs[key]
            raise Unsupported("attribute / subscript " + key)
        if isinstance(e, ast.UnaryOp) and isinstance(e.op, ast.USub):
            return f"(-{self.expr(e.operand)})"
        if isinstance(e, ast.BinOp):
            if isinstance(e.op, ast.Pow):
                if not (isinstance(e.right, ast.Constant) and isinstance(e.right.value, int) and e.right.value >= 0):
                    raise Unsupported("** by something that is not a non-negative int literal")
                return f"({self.expr(e.left)} ^ {e.right.value})"
            if isinstance(e.op, ast.Mod):
                if not (isinstance(e.right, ast.Constant) and isinstance(e.right.value, (int, float)) and e.right.value > 0):
                    raise Unsupported("% by something that is not a positive literal")
                # Python / numpy float modulo by a positive number: x - p * floor(x / p)
                return f"({self.expr(e.left)} - {lit(e.right.value)} * (⌊{self.expr(e.left)} / {lit(e.right.value)}⌋ : ℝ))"
            op = {ast.Add: "+", ast.Sub: "-", ast.Mult: "*", ast.Div: "/"}.get(type(e.op))
            if op is None:
                raise Unsupported(ast.dump(e.op))
            return f"({self.expr(e.left)} {op} {self.expr(e.right)})"
        if isinstance(e, ast.Compare) and len(e.ops) == 1:
            op = {ast.Gt: ">", ast.Lt: "<", ast.GtE: "≥", ast.LtE: "≤"}.get(type(e.ops[0]))
            if op is None:
                raise Unsupported(ast.dump(e.ops[0]))
            return f"({self.expr(e.left)} {op} {self.expr(e.comparators[0])})"
        if isinstance(e, ast.Call):
            name = ast.unparse(e.func)
            if name.startswith("np.") and name[3:] in FUNCS and len(e.args) == 1 and not e.keywords:
                return f"({FUNCS[name[3:]]} {self.expr(e.args[0])})"
            if name == "np.arctan2" and len(e.args) == 2 and not e.keywords:
                return f"(Complex.arg ⟨{self.expr(e.args[1])}, {self.expr(e.args[0])}⟩)"
            if name == "np.where" and len(e.args) == 3:
                return f"(if {self.expr(e.args[0])} then {self.expr(e.args[1])} else {self.expr(e.args[2])})"
            if name == "atleast_1d" and len(e.args) == 1:
                return self.expr(e.args[0])
            if name in self.known:
                pyargs, leanargs = self.known[name]
                given = {}
                for i, a in enumerate(e.args):
                    given[pyargs[i]] = self.expr(a)
                for kw in e.keywords:
                    if kw.arg not in pyargs:
                        raise Unsupported(f"keyword {kw.arg} of {name}")
                    given[kw.arg] = self.expr(kw.value)
                missing = [a for a in leanargs if a not in given]
                if missing:
                    raise Unsupported(f"call of {name} without {missing}")
                return "(" + name + " " + " ".join(given[a] for a in leanargs) + ")"
        raise Unsupported(ast.unparse(e)[:80])

    def body(self, fn):
        lets, outs, ret = [], {}, None
        for s in fn.body:
            if isinstance(s, ast.Expr) and isinstance(s.value, ast.Constant) and isinstance(s.value.value, str):
                continue
            if isinstance(s, ast.Assign) and len(s.targets) == 1:
                t = s.targets[0]
                if isinstance(t, ast.Name):
                    if isinstance(s.value, ast.Call) and ast.unparse(s.value.func) in ("np.empty", "np.zeros"):
                        continue
                    lets.append(f"  let {t.id} := {self.expr(s.value)}")
                    continue
                if isinstance(t, ast.Subscript) and isinstance(t.slice, ast.Tuple) and len(t.slice.elts) == 2 and \
                        isinstance(t.slice.elts[0], ast.Constant) and t.slice.elts[0].value is Ellipsis and \
                        isinstance(t.slice.elts[1], ast.Constant) and isinstance(t.slice.elts[1].value, int):
                    outs[t.slice.elts[1].value] = self.expr(s.value)
                    continue
            if isinstance(s, ast.If) and not s.orelse and len(s.body) == 1 and isinstance(s.body[0], ast.Assign) \
                    and len(s.body[0].targets) == 1 and isinstance(s.body[0].targets[0], ast.Name):
                t = s.body[0].targets[0].id
                lets.append(f"  let {t} := if {self.expr(s.test)} then {self.expr(s.body[0].value)} else {t}")
                continue
            if isinstance(s, ast.Return):
                if isinstance(s.value, ast.Name) and outs:
                    idx = sorted(outs)
                    if idx != list(range(len(idx))):
                        raise Unsupported("output components are not 0..n-1")
                    ret = "  [" + ",\n   ".join(outs[i] for i in idx) + "]"
                else:
                    ret = "  " + self.expr(s.value)
                break
            raise Unsupported(ast.unparse(s)[:80])
        if ret is None:
            raise Unsupported("no return")
        return "\n".join(lets + [ret]), bool(outs)


def translate():
    out = ["/- GENERATED by tools/py2lean_arith.py from /repo/src/ocean_science_utilities — do not edit. -/",
           "import Mathlib.Analysis.SpecialFunctions.Trigonometric.Deriv",
           "import Mathlib.Analysis.SpecialFunctions.Sqrt",
           "import Mathlib.Analysis.SpecialFunctions.Log.Basic",
           "import Mathlib.Analysis.SpecialFunctions.Trigonometric.Basic",
           "import Mathlib.Analysis.SpecialFunctions.Complex.Arg",
           "import Mathlib.Algebra.Order.Floor.Ring",
           "", "namespace Osu.GenArith", ""]
    known = {}
    cache = {}
    for rel, name, args, attrs in TARGETS:
        if rel not in cache:
            cache[rel] = ast.parse((REPO / rel).read_text())
        fn = next((n for n in cache[rel].body if isinstance(n, ast.FunctionDef) and n.name == name), None)
        if fn is None:
            raise Unsupported(f"{name} not found in {rel}")
        body, is_list = Tr(attrs, known).body(fn)
        out.append(f"/-- `{rel}: {name}` -/")
        out.append(f"noncomputable def {name} " + " ".join(f"({a} : ℝ)" for a in args) + f" : {'List ℝ' if is_list else 'ℝ'} :=")
        out.append(body)
        out.append("")
        known[name] = ([a.arg for a in fn.args.args], args)
    for rel, name, lean_name, args, wanted in SLICES:
        if rel not in cache:
            cache[rel] = ast.parse((REPO / rel).read_text())
        fn = next((n for n in cache[rel].body if isinstance(n, ast.FunctionDef) and n.name == name), None)
        if fn is None:
            raise Unsupported(f"{name} not found in {rel}")
        tr = Tr(attrs_of.get(lean_name, {}), known)
        lets = []
        for w in wanted:
            if w.startswith("{"):          # the value of the entry "key" of a dict display: {"key": value}
                key = w.strip("{}")
                hits = [v for d in ast.walk(fn) if isinstance(d, ast.Dict)
                        for k, v in zip(d.keys, d.values) if isinstance(k, ast.Constant) and k.value == key]
                vals = hits
                w = key
            elif w.startswith("@"):        # the value assigned to <something>["key"]
                key = w[1:]
                vals = [st.value for st in ast.walk(fn) if isinstance(st, ast.Assign) and len(st.targets) == 1
                        and isinstance(st.targets[0], ast.Subscript) and isinstance(st.targets[0].slice, ast.Constant)
                        and st.targets[0].slice.value == key]
                w = key
            else:
                vals = [st.value for st in ast.walk(fn) if isinstance(st, ast.Assign) and len(st.targets) == 1
                        and isinstance(st.targets[0], ast.Name) and st.targets[0].id == w]
            if len(vals) != 1:
                raise Unsupported(f"{name}: expected exactly one assignment to {w}, found {len(vals)}")
            lets.append((w, tr.expr(vals[0])))
        out.append(f"/-- `{rel}: {name}`, the assignments to {', '.join(wanted)} -/")
        out.append(f"noncomputable def {lean_name} " + " ".join(f"({a} : ℝ)" for a in args) + " : ℝ :=")
        out.append("\n".join([f"  let {w} := {ex}" for w, ex in lets[:-1]] + ["  " + lets[-1][1]]))
        out.append("")
    out.append("end Osu.GenArith")
    return "\n".join(out) + "\n"


if __name__ == "__main__":
    dst = Path(sys.argv[1]) if len(sys.argv) > 1 else Path(__file__).resolve().parents[1] / "lean/OsuProofs/Gen/Arith.lean"
    text = translate()
    dst.parent.mkdir(parents=True, exist_ok=True)
    if not dst.exists() or dst.read_text() != text:
        dst.write_text(text)
    print(f"wrote {dst}")
