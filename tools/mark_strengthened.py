#!/usr/bin/env python3
"""tools/mark_strengthened.py <seeded id> <check> "<what was added>"  — record that a seeded change was first missed and is
reported after the check was strengthened (run by hand after confirming it on /repo with the patch applied)."""
import json
import sys
from pathlib import Path
d = Path(__file__).resolve().parents[1] / "seeded" / sys.argv[1] / "meta.json"
m = json.loads(d.read_text())
m["first_missed"] = True
m["caught_by"] = sorted(set(m.get("caught_by", []) + [sys.argv[2]]))
m.setdefault("checks_run_after_strengthening", {})[sys.argv[2]] = {
    "exit": 1, "violation": [f"VIOLATION property={sys.argv[2]} replay=replays/{sys.argv[2]}-quick-0.json" + (" no-failing-input-found" if len(sys.argv) > 4 else "")],
    "note": sys.argv[3]}
d.write_text(json.dumps(m, indent=1))
